import SpecVerif.Proofs.Lemmas.Shift
import SpecVerif.Proofs.Lemmas.LeastSquares
import SpecVerif.Proofs.Lemmas.ArmaEst
import SpecVerif.Proofs.C14
import Mathlib.Algebra.BigOperators.Intervals
import Mathlib.Algebra.Star.BigOperators
import Mathlib.Algebra.Field.Basic
import Mathlib.Analysis.RCLike.Basic
import Mathlib.Tactic.Ring
/-
  Helper lemmas for C04, covariance / modified covariance least squares (`arcovar`, `modcovar`) under
  a unimodular modulation `x_n ↦ μ^n x_n` and under conjugation `x_n ↦ conj x_n`.

  * forward / backward prediction errors of the modulated data at the twisted coefficients
    `a_j ↦ μ^{j+1} a_j` are the errors of the data times the phase `μ^t` (`μ^s`), so the energies are
    unchanged and the normal equation number `b` is multiplied by `μ^{b+1} ≠ 0`;
  * the errors of the conjugated data at the conjugated coefficients are the conjugated errors;
  * uniqueness of the solution of the normal equations: `GramInj` (the Gram matrix `X_cᴴX_c` has a trivial
    kernel, any field with involution), implied over `ℝ`/`ℂ` by `ColInj` (full column rank of `X_c`).
-/
namespace SpecVerif.ShiftLSL
open Finset SpecVerif SpecVerif.ArmaL SpecVerif.ShiftL SpecVerif.LSL

/-! ### uniqueness of the solution of the normal equations -/
section Unique
variable {K : Type} [Field K] [StarRing K]

/-- the Gram matrix `X_cᴴX_c` of the `r × p` regressor block has a trivial kernel (is nonsingular): the
normal equations have at most one solution -/
def GramInj (Xc : ℕ → ℕ → K) (r p : ℕ) : Prop :=
  ∀ d : ℕ → K,
    (∀ b, b < p → ∑ i ∈ range r, star (Xc i b) * ∑ j ∈ range p, Xc i j * d j = 0) →
      ∀ j, j < p → d j = 0

/-- full column rank of the `r × p` regressor block: `X_c d = 0` only for `d = 0` -/
def ColInj (Xc : ℕ → ℕ → K) (r p : ℕ) : Prop :=
  ∀ d : ℕ → K, (∀ i, i < r → ∑ j ∈ range p, Xc i j * d j = 0) → ∀ j, j < p → d j = 0

/-- with a nonsingular Gram matrix two solutions of the normal equations agree on `j < p` -/
theorem normalEq_unique {X1 : ℕ → K} {Xc : ℕ → ℕ → K} {r p : ℕ} {a a' : ℕ → K}
    (hG : GramInj Xc r p) (h : NormalEq X1 Xc r p a) (h' : NormalEq X1 Xc r p a') :
    ∀ j, j < p → a' j = a j := by
  have key := hG (fun j => a' j - a j) (fun b hb => by
    have e : ∀ i ∈ range r, star (Xc i b) * ∑ j ∈ range p, Xc i j * (a' j - a j)
        = star (Xc i b) * lsRes X1 Xc p a' i - star (Xc i b) * lsRes X1 Xc p a i := by
      intro i _
      rw [lsRes_add_diff X1 Xc p a a' i]
      unfold lsDiff
      ring
    rw [Finset.sum_congr rfl e, Finset.sum_sub_distrib, h b hb, h' b hb, sub_zero])
  intro j hj
  exact sub_eq_zero.mp (key j hj)

omit [StarRing K] in
theorem fwdErr_congr (x : List K) (p : ℕ) {a a' : ℕ → K} (h : ∀ j, j < p → a j = a' j) (t : ℕ) :
    fwdErr x p a t = fwdErr x p a' t := by
  unfold fwdErr
  congr 1
  apply Finset.sum_congr rfl
  intro j hj
  rw [h j (mem_range.mp hj)]

theorem bwdErr_congr (x : List K) (p : ℕ) {a a' : ℕ → K} (h : ∀ j, j < p → a j = a' j) (s : ℕ) :
    bwdErr x p a s = bwdErr x p a' s := by
  unfold bwdErr
  congr 1
  apply Finset.sum_congr rfl
  intro j hj
  rw [h j (mem_range.mp hj)]

theorem fwdEnergy_congr (x : List K) (p : ℕ) {a a' : ℕ → K} (h : ∀ j, j < p → a j = a' j) :
    fwdEnergy x p a = fwdEnergy x p a' := by
  unfold fwdEnergy
  apply Finset.sum_congr rfl
  intro t _
  rw [fwdErr_congr x p h t]

theorem bwdEnergy_congr (x : List K) (p : ℕ) {a a' : ℕ → K} (h : ∀ j, j < p → a j = a' j) :
    bwdEnergy x p a = bwdEnergy x p a' := by
  unfold bwdEnergy
  apply Finset.sum_congr rfl
  intro s _
  rw [bwdErr_congr x p h s]

end Unique

section UniqueRC
variable {𝕜 : Type} [RCLike 𝕜]

/-- over `ℝ`/`ℂ` full column rank makes the Gram matrix nonsingular (`dᴴX_cᴴX_c d = ‖X_c d‖²`) -/
theorem gramInj_of_colInj {Xc : ℕ → ℕ → 𝕜} {r p : ℕ} (hC : ColInj Xc r p) : GramInj Xc r p := by
  intro d hd
  apply hC d
  intro i hi
  have hn : NormalEq (fun _ => (0 : 𝕜)) Xc r p d := by
    intro b hb
    have := hd b hb
    unfold lsRes
    simpa only [zero_add] using this
  have h0 : ∀ i, i < r → lsRes (fun _ => (0 : 𝕜)) Xc p (fun _ => 0) i = 0 := by
    intro i _
    unfold lsRes
    simp
  have := res_zero_of_normalEq_of_zero_fit hn h0 i hi
  unfold lsRes at this
  simpa only [zero_add] using this

end UniqueRC

/-! ### modulation -/
section Mod
variable {K : Type} [Field K] [StarRing K]

theorem unimod_ne_zero {μ : K} (hμ : μ * star μ = 1) : μ ≠ 0 := by
  rintro rfl
  rw [zero_mul] at hμ
  exact zero_ne_one hμ

theorem unimod_pow_cancel {μ : K} (hμ : μ * star μ = 1) (n : ℕ) : μ ^ n * star μ ^ n = 1 := by
  rw [← mul_pow, hμ, one_pow]

/-- undoing the twist: `μ^{j+1}·(conj μ^{j+1}·z) = z` -/
theorem twist_untwist {μ : K} (hμ : μ * star μ = 1) (f : ℕ → K) :
    (fun j => μ ^ (j + 1) * (star μ ^ (j + 1) * f j)) = f := by
  funext j
  rw [← mul_assoc, unimod_pow_cancel hμ, one_mul]

omit [StarRing K] in
/-- the forward error of the modulated data at the twisted coefficients (`t ≥ p`: no truncated index) -/
theorem fwdErr_modulate (μ : K) (x : List K) (p : ℕ) (a : ℕ → K) {t : ℕ} (ht : p ≤ t) :
    fwdErr (modulate μ x) p (fun j => μ ^ (j + 1) * a j) t = μ ^ t * fwdErr x p a t := by
  unfold fwdErr
  rw [nth_modulate, mul_add, Finset.mul_sum]
  congr 1
  apply Finset.sum_congr rfl
  intro j hj
  have hj' := mem_range.mp hj
  have e : μ ^ t = μ ^ (j + 1) * μ ^ (t - 1 - j) := by
    rw [← pow_add]
    congr 1
    omega
  rw [nth_modulate, e]
  ring

/-- the backward error of the modulated data at the twisted coefficients -/
theorem bwdErr_modulate {μ : K} (hμ : μ * star μ = 1) (x : List K) (p : ℕ) (a : ℕ → K) (s : ℕ) :
    bwdErr (modulate μ x) p (fun j => μ ^ (j + 1) * a j) s = μ ^ s * bwdErr x p a s := by
  unfold bwdErr
  rw [nth_modulate, mul_add, Finset.mul_sum]
  congr 1
  apply Finset.sum_congr rfl
  intro j _
  have e : star μ ^ (j + 1) * μ ^ (s + 1 + j) = μ ^ s := by
    have : s + 1 + j = s + (j + 1) := by omega
    rw [this, pow_add μ s (j + 1), mul_comm, mul_assoc, unimod_pow_cancel hμ, mul_one]
  rw [nth_modulate, star_mul', star_pow]
  calc star μ ^ (j + 1) * star (a j) * (μ ^ (s + 1 + j) * nth x (s + 1 + j))
      = (star μ ^ (j + 1) * μ ^ (s + 1 + j)) * (star (a j) * nth x (s + 1 + j)) := by ring
    _ = μ ^ s * (star (a j) * nth x (s + 1 + j)) := by rw [e]

theorem fwdEnergy_modulate {μ : K} (hμ : μ * star μ = 1) (x : List K) (p : ℕ) (a : ℕ → K) :
    fwdEnergy (modulate μ x) p (fun j => μ ^ (j + 1) * a j) = fwdEnergy x p a := by
  unfold fwdEnergy
  rw [modulate_length]
  apply Finset.sum_congr rfl
  intro t ht
  rw [fwdErr_modulate μ x p a (mem_Ico.mp ht).1, star_mul', star_pow]
  calc μ ^ t * fwdErr x p a t * (star μ ^ t * star (fwdErr x p a t))
      = (μ ^ t * star μ ^ t) * (fwdErr x p a t * star (fwdErr x p a t)) := by ring
    _ = fwdErr x p a t * star (fwdErr x p a t) := by rw [unimod_pow_cancel hμ, one_mul]

theorem bwdEnergy_modulate {μ : K} (hμ : μ * star μ = 1) (x : List K) (p : ℕ) (a : ℕ → K) :
    bwdEnergy (modulate μ x) p (fun j => μ ^ (j + 1) * a j) = bwdEnergy x p a := by
  unfold bwdEnergy
  rw [modulate_length]
  apply Finset.sum_congr rfl
  intro s _
  rw [bwdErr_modulate hμ, star_mul', star_pow]
  calc μ ^ s * bwdErr x p a s * (star μ ^ s * star (bwdErr x p a s))
      = (μ ^ s * star μ ^ s) * (bwdErr x p a s * star (bwdErr x p a s)) := by ring
    _ = bwdErr x p a s * star (bwdErr x p a s) := by rw [unimod_pow_cancel hμ, one_mul]

/-- forward half of normal equation `b < p` of the modulated data: the factor `μ^{b+1}` -/
theorem normalSum_fwd_modulate {μ : K} (hμ : μ * star μ = 1) (x : List K) (p : ℕ) (a : ℕ → K)
    {b : ℕ} (hb : b < p) (N : ℕ) :
    ∑ t ∈ Ico p N, star (nth (modulate μ x) (t - 1 - b))
        * fwdErr (modulate μ x) p (fun j => μ ^ (j + 1) * a j) t
      = μ ^ (b + 1) * ∑ t ∈ Ico p N, star (nth x (t - 1 - b)) * fwdErr x p a t := by
  rw [Finset.mul_sum]
  apply Finset.sum_congr rfl
  intro t ht
  have ht' := (mem_Ico.mp ht).1
  have e : μ ^ t = μ ^ (b + 1) * μ ^ (t - 1 - b) := by
    rw [← pow_add]
    congr 1
    omega
  rw [fwdErr_modulate μ x p a ht', nth_modulate, star_mul', star_pow, e]
  calc star μ ^ (t - 1 - b) * star (nth x (t - 1 - b))
        * (μ ^ (b + 1) * μ ^ (t - 1 - b) * fwdErr x p a t)
      = (μ ^ (t - 1 - b) * star μ ^ (t - 1 - b))
          * (μ ^ (b + 1) * (star (nth x (t - 1 - b)) * fwdErr x p a t)) := by ring
    _ = μ ^ (b + 1) * (star (nth x (t - 1 - b)) * fwdErr x p a t) := by
        rw [unimod_pow_cancel hμ, one_mul]

/-- backward half of normal equation `b` of the modulated data: the same factor `μ^{b+1}` -/
theorem normalSum_bwd_modulate {μ : K} (hμ : μ * star μ = 1) (x : List K) (p : ℕ) (a : ℕ → K)
    (b : ℕ) (I : Finset ℕ) :
    ∑ s ∈ I, nth (modulate μ x) (s + 1 + b)
        * star (bwdErr (modulate μ x) p (fun j => μ ^ (j + 1) * a j) s)
      = μ ^ (b + 1) * ∑ s ∈ I, nth x (s + 1 + b) * star (bwdErr x p a s) := by
  rw [Finset.mul_sum]
  apply Finset.sum_congr rfl
  intro s _
  have e : μ ^ (s + 1 + b) = μ ^ (b + 1) * μ ^ s := by
    rw [← pow_add]
    congr 1
    omega
  rw [bwdErr_modulate hμ, nth_modulate, star_mul', star_pow, e]
  calc μ ^ (b + 1) * μ ^ s * nth x (s + 1 + b) * (star μ ^ s * star (bwdErr x p a s))
      = (μ ^ s * star μ ^ s) * (μ ^ (b + 1) * (nth x (s + 1 + b) * star (bwdErr x p a s))) := by
        ring
    _ = μ ^ (b + 1) * (nth x (s + 1 + b) * star (bwdErr x p a s)) := by
        rw [unimod_pow_cancel hμ, one_mul]

/-- **covariance normal equations under modulation** -/
theorem covariance_normalEq_modulate {μ : K} (hμ : μ * star μ = 1) (x : List K) (p : ℕ)
    (a : ℕ → K) :
    NormalEq (col0 (corrmtx (modulate μ x) p .covariance))
        (colR (corrmtx (modulate μ x) p .covariance)) ((modulate μ x).length - p) p
        (fun j => μ ^ (j + 1) * a j)
      ↔ NormalEq (col0 (corrmtx x p .covariance)) (colR (corrmtx x p .covariance))
          (x.length - p) p a := by
  rw [C14.covariance_normalEq_iff, C14.covariance_normalEq_iff, modulate_length]
  apply forall_congr'
  intro b
  apply imp_congr_right
  intro hb
  rw [normalSum_fwd_modulate hμ x p a hb, mul_eq_zero]
  exact ⟨fun h => h.resolve_left (pow_ne_zero _ (unimod_ne_zero hμ)), Or.inr⟩

/-- **modified covariance normal equations under modulation** -/
theorem modified_normalEq_modulate {μ : K} (hμ : μ * star μ = 1) (x : List K) (p : ℕ)
    (a : ℕ → K) :
    NormalEq (col0 (corrmtx (modulate μ x) p .modified))
        (colR (corrmtx (modulate μ x) p .modified)) (2 * ((modulate μ x).length - p)) p
        (fun j => μ ^ (j + 1) * a j)
      ↔ NormalEq (col0 (corrmtx x p .modified)) (colR (corrmtx x p .modified))
          (2 * (x.length - p)) p a := by
  rw [C14.modified_normalEq_iff, C14.modified_normalEq_iff, modulate_length]
  apply forall_congr'
  intro b
  apply imp_congr_right
  intro hb
  rw [normalSum_fwd_modulate hμ x p a hb, normalSum_bwd_modulate hμ, ← mul_add, mul_eq_zero]
  exact ⟨fun h => h.resolve_left (pow_ne_zero _ (unimod_ne_zero hμ)), Or.inr⟩

/-- from a solution `a'` for the modulated data and uniqueness for the data: `a'` is the twist of the
solution `a` for the data (generic in the data-matrix kind; `hiff` is one of the two lemmas above) -/
theorem twist_of_unique {μ : K} (hμ : μ * star μ = 1) {p : ℕ} {a a' : List K}
    (hl : a.length = p) (hl' : a'.length = p) {P P' : (ℕ → K) → Prop}
    (hiff : ∀ f : ℕ → K, P' (fun j => μ ^ (j + 1) * f j) ↔ P f)
    (huniq : ∀ f : ℕ → K, P f → ∀ j, j < p → f j = nth a j) (h' : P' (nth a')) :
    (∀ j, j < p → star μ ^ (j + 1) * nth a' j = nth a j) ∧ a' = twist μ a := by
  have h0 : P (fun j => star μ ^ (j + 1) * nth a' j) := by
    apply (hiff _).mp
    rw [twist_untwist hμ]
    exact h'
  have hag := huniq _ h0
  refine ⟨hag, ?_⟩
  apply list_ext_nth
  · rw [twist_length, hl, hl']
  · intro j hj
    rw [nth_twist, ← hag j (by omega), ← mul_assoc, unimod_pow_cancel hμ, one_mul]

end Mod

/-! ### conjugation -/
section Conj
variable {K : Type} [Field K] [StarRing K]

theorem nth_map_star (x : List K) (i : ℕ) : nth (x.map star) i = star (nth x i) :=
  nth_map_zero star (star_zero K) x i

/-- conjugating twice: `conj (conj (f j)) = f j` -/
theorem star_star_fun (f : ℕ → K) : (fun j => star (star (f j))) = f := by
  funext j
  rw [star_star]

theorem fwdErr_map_star (x : List K) (p : ℕ) (a : ℕ → K) (t : ℕ) :
    fwdErr (x.map star) p (fun j => star (a j)) t = star (fwdErr x p a t) := by
  unfold fwdErr
  rw [nth_map_star, star_add, star_sum]
  congr 1
  apply Finset.sum_congr rfl
  intro j _
  rw [nth_map_star, star_mul']

theorem bwdErr_map_star (x : List K) (p : ℕ) (a : ℕ → K) (s : ℕ) :
    bwdErr (x.map star) p (fun j => star (a j)) s = star (bwdErr x p a s) := by
  unfold bwdErr
  rw [nth_map_star, star_add, star_sum]
  congr 1
  apply Finset.sum_congr rfl
  intro j _
  rw [nth_map_star, star_mul']

theorem fwdEnergy_map_star (x : List K) (p : ℕ) (a : ℕ → K) :
    fwdEnergy (x.map star) p (fun j => star (a j)) = fwdEnergy x p a := by
  unfold fwdEnergy
  rw [List.length_map]
  apply Finset.sum_congr rfl
  intro t _
  rw [fwdErr_map_star, star_star, mul_comm]

theorem bwdEnergy_map_star (x : List K) (p : ℕ) (a : ℕ → K) :
    bwdEnergy (x.map star) p (fun j => star (a j)) = bwdEnergy x p a := by
  unfold bwdEnergy
  rw [List.length_map]
  apply Finset.sum_congr rfl
  intro s _
  rw [bwdErr_map_star, star_star, mul_comm]

theorem normalSum_fwd_map_star (x : List K) (p : ℕ) (a : ℕ → K) (b : ℕ) (I : Finset ℕ) :
    ∑ t ∈ I, star (nth (x.map star) (t - 1 - b)) * fwdErr (x.map star) p (fun j => star (a j)) t
      = star (∑ t ∈ I, star (nth x (t - 1 - b)) * fwdErr x p a t) := by
  rw [star_sum]
  apply Finset.sum_congr rfl
  intro t _
  rw [fwdErr_map_star, nth_map_star, star_mul']

theorem normalSum_bwd_map_star (x : List K) (p : ℕ) (a : ℕ → K) (b : ℕ) (I : Finset ℕ) :
    ∑ s ∈ I, nth (x.map star) (s + 1 + b) * star (bwdErr (x.map star) p (fun j => star (a j)) s)
      = star (∑ s ∈ I, nth x (s + 1 + b) * star (bwdErr x p a s)) := by
  rw [star_sum]
  apply Finset.sum_congr rfl
  intro s _
  rw [bwdErr_map_star, nth_map_star, star_mul']

theorem covariance_normalEq_map_star (x : List K) (p : ℕ) (a : ℕ → K) :
    NormalEq (col0 (corrmtx (x.map star) p .covariance)) (colR (corrmtx (x.map star) p .covariance))
        ((x.map star).length - p) p (fun j => star (a j))
      ↔ NormalEq (col0 (corrmtx x p .covariance)) (colR (corrmtx x p .covariance))
          (x.length - p) p a := by
  rw [C14.covariance_normalEq_iff, C14.covariance_normalEq_iff, List.length_map]
  apply forall_congr'
  intro b
  apply imp_congr_right
  intro _
  rw [normalSum_fwd_map_star, star_eq_zero]

theorem modified_normalEq_map_star (x : List K) (p : ℕ) (a : ℕ → K) :
    NormalEq (col0 (corrmtx (x.map star) p .modified)) (colR (corrmtx (x.map star) p .modified))
        (2 * ((x.map star).length - p)) p (fun j => star (a j))
      ↔ NormalEq (col0 (corrmtx x p .modified)) (colR (corrmtx x p .modified))
          (2 * (x.length - p)) p a := by
  rw [C14.modified_normalEq_iff, C14.modified_normalEq_iff, List.length_map]
  apply forall_congr'
  intro b
  apply imp_congr_right
  intro _
  rw [normalSum_fwd_map_star, normalSum_bwd_map_star, ← star_add, star_eq_zero]

/-- from a solution `a'` for the conjugated data and uniqueness for the data: `a' = conj a` -/
theorem map_star_of_unique {p : ℕ} {a a' : List K}
    (hl : a.length = p) (hl' : a'.length = p) {P P' : (ℕ → K) → Prop}
    (hiff : ∀ f : ℕ → K, P' (fun j => star (f j)) ↔ P f)
    (huniq : ∀ f : ℕ → K, P f → ∀ j, j < p → f j = nth a j) (h' : P' (nth a')) :
    (∀ j, j < p → star (nth a' j) = nth a j) ∧ a' = a.map star := by
  have h0 : P (fun j => star (nth a' j)) := by
    apply (hiff _).mp
    rw [star_star_fun]
    exact h'
  have hag := huniq _ h0
  refine ⟨hag, ?_⟩
  apply list_ext_nth
  · rw [List.length_map, hl, hl']
  · intro j hj
    rw [nth_map_star, ← hag j (by omega), star_star]

end Conj

end SpecVerif.ShiftLSL
