import SpecVerif.Proofs.Lemmas.Basic
import SpecVerif.Model.DFT
import Mathlib.RingTheory.RootsOfUnity.PrimitiveRoots
import Mathlib.Algebra.Field.GeomSum
import Mathlib.Tactic.FieldSimp
/-
  DFT lemmas over a field with involution: the model's table look-up is `ω^(jk)`, character
  orthogonality, zero-padded Parseval.
-/
namespace SpecVerif
open Finset

variable {K : Type} [Field K]

theorem pow_mod_of_pow_eq_one {ω : K} {n : ℕ} (h : ω ^ n = 1) (m : ℕ) : ω ^ (m % n) = ω ^ m := by
  conv_rhs => rw [← Nat.div_add_mod m n, pow_add, pow_mul, h, one_pow, one_mul]

/-- the twiddle table look-up of the model is the power `ω^m` -/
theorem nth_twiddles {ω : K} {n : ℕ} (hn : 0 < n) (h : ω ^ n = 1) (m : ℕ) :
    nth (twiddles ω n) (m % n) = ω ^ m := by
  unfold twiddles
  rw [nth_vec, if_pos (Nat.mod_lt _ hn), powN_eq_pow, pow_mod_of_pow_eq_one h]

/-- bin `k` of the model's DFT is `Σ_j x_j ω^{jk}` over the (truncated) input -/
theorem dftBin_eq {ω : K} {n : ℕ} (hn : 0 < n) (h : ω ^ n = 1) (x : List K) (k : ℕ) :
    dftBin (twiddles ω n) n x k = ∑ j ∈ range (min x.length n), nth x j * ω ^ (j * k) := by
  unfold dftBin
  rw [sumR_eq_sum]
  apply Finset.sum_congr rfl
  intro j _
  rw [nth_twiddles hn h]

theorem dft_length (tw : List K) (n : ℕ) (x : List K) : (dft tw n x).length = n := by
  simp [dft]

theorem rdft_length (tw : List K) (n : ℕ) (x : List K) : (rdft tw n x).length = n / 2 + 1 := by
  simp [rdft]

/-- orthogonality of the characters `k ↦ ω^{ak}` on `range n` -/
theorem sum_pow_mul_inv_pow {ω : K} {n : ℕ} (hω : IsPrimitiveRoot ω n) (a b : ℕ) (ha : a < n)
    (hb : b < n) :
    ∑ k ∈ range n, (ω ^ a) ^ k * (ω⁻¹ ^ b) ^ k = if a = b then (n : K) else 0 := by
  have hn : 0 < n := by omega
  have hω0 : ω ≠ 0 := hω.ne_zero hn.ne'
  by_cases hab : a = b
  · subst hab
    simp only [if_true]
    have : ∀ k ∈ range n, (ω ^ a) ^ k * (ω⁻¹ ^ a) ^ k = 1 := by
      intro k _
      rw [← mul_pow, ← mul_pow, mul_inv_cancel₀ hω0, one_pow, one_pow]
    rw [Finset.sum_congr rfl this]; simp
  · simp only [hab, if_false]
    set q := ω ^ a * ω⁻¹ ^ b with hq
    have hterm : ∀ k ∈ range n, (ω ^ a) ^ k * (ω⁻¹ ^ b) ^ k = q ^ k := by
      intro k _; rw [hq, mul_pow]
    rw [Finset.sum_congr rfl hterm]
    have hqn : q ^ n = 1 := by
      rw [hq, mul_pow, ← pow_mul, ← pow_mul, mul_comm a n, mul_comm b n, pow_mul, pow_mul, inv_pow,
        hω.pow_eq_one]; simp
    have hq1 : q ≠ 1 := by
      intro h1
      rw [hq] at h1
      have : ω ^ a = ω ^ b := by
        have := congrArg (· * ω ^ b) h1
        simp only [one_mul] at this
        rw [mul_assoc, inv_pow, inv_mul_cancel₀ (pow_ne_zero _ hω0), mul_one] at this
        exact this
      exact hab (hω.pow_inj ha hb this)
    have := geom_sum_eq hq1 n
    rw [this, hqn]; simp

variable [StarRing K]

/-- zero-padded Parseval: `Σ_k |Σ_{a<N} x_a ω^{ak}|² = n · Σ_a |x_a|²` for `N ≤ n` -/
theorem parseval_fun {ω : K} {n N : ℕ} (hω : IsPrimitiveRoot ω n) (hN : N ≤ n)
    (hstar : star ω = ω⁻¹) (x : ℕ → K) :
    ∑ k ∈ range n, (∑ a ∈ range N, x a * ω ^ (a * k)) * star (∑ a ∈ range N, x a * ω ^ (a * k))
      = (n : K) * ∑ a ∈ range N, x a * star (x a) := by
  simp only [pow_mul]
  simp only [star_sum, star_mul', star_pow, hstar, Finset.sum_mul, Finset.mul_sum]
  rw [Finset.sum_comm]
  apply Finset.sum_congr rfl
  intro a ha
  rw [Finset.sum_comm]
  have ha' : a < n := lt_of_lt_of_le (mem_range.mp ha) hN
  have : ∀ b ∈ range N, ∑ k ∈ range n, x b * (ω ^ b) ^ k * (star (x a) * (ω⁻¹ ^ a) ^ k)
      = x b * star (x a) * (if b = a then (n : K) else 0) := by
    intro b hb
    have hb' : b < n := lt_of_lt_of_le (mem_range.mp hb) hN
    rw [← sum_pow_mul_inv_pow hω b a hb' ha', Finset.mul_sum]
    apply Finset.sum_congr rfl
    intro k _; ring
  rw [Finset.sum_congr rfl this]
  simp only [mul_ite, mul_zero]
  rw [Finset.sum_ite_eq' (range N) a]
  simp only [ha, if_true]; ring

end SpecVerif
