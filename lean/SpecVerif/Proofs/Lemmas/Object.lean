import SpecVerif.Model.Object
/-
  Helper lemmas for C07 (the `Spectrum` attribute-and-cache state machine of `Model/Object.lean`).
  Everything lives in `SpecVerif.ObjL`.
-/
namespace SpecVerif.ObjL
open SpecVerif

/-- The reachable-state invariant: the `Range` axis follows `NFFT`/`sampling`, and an object that is not
marked `modified` stores the estimate of its *current* attributes in its *current* `sides`. -/
def ObjInv (s : ObjState) : Prop :=
  s.rangeN = s.a.nfft ∧ s.rangeSamp = s.a.samp ∧
  (s.modified = false → ∀ snap sd, s.cache = some (snap, sd) → snap = s.a ∧ sd = s.sides)

/-- the side denoted by a `sides = ...` argument for data of the given complexity -/
def argSide (arg : SideArg) (cplx : Bool) : Side :=
  match arg with
  | .one => .one | .two => .two | .center => .center | .dflt => defaultSide cplx

/-- the argument denoting a given side -/
def sideArg : Side → SideArg
  | .one => .one | .two => .two | .center => .center

theorem argSide_sideArg (sd : Side) (c : Bool) : argSide (sideArg sd) c = sd := by
  cases sd <;> rfl

/-- `ObjState` extensionality (the structure has no `@[ext]`). -/
theorem objState_eta (s : ObjState) :
    ({ a := s.a, sides := s.sides, cache := s.cache, modified := s.modified, rangeN := s.rangeN,
       rangeSamp := s.rangeSamp, parametric := s.parametric } : ObjState) = s := by
  cases s; rfl

theorem attrs_eta (a : Attrs) :
    ({ dataId := a.dataId, cplx := a.cplx, N := a.N, nfft := a.nfft, samp := a.samp, detrend := a.detrend,
       scale := a.scale, window := a.window, lag := a.lag, arOrder := a.arOrder, maOrder := a.maOrder } : Attrs)
      = a := by
  cases a; rfl

theorem recompute_inv (s : ObjState) (h : ObjInv s) : ObjInv (recompute s) := by
  simp only [ObjInv, recompute] at *
  grind

theorem applyNfft_inv (s : ObjState) (n : Nat) (h : ObjInv s) : ObjInv (applyNfft s n) := by
  simp only [ObjInv, applyNfft] at *
  split <;> grind

/-- `setSides` unfolded with the target side named by `argSide`. -/
theorem objStep_setSides (s : ObjState) (arg : SideArg) :
    objStep s (.setSides arg) =
      match s.cache with
      | none => ({ s with sides := argSide arg s.a.cplx, modified := false }, false)
      | some _ =>
        let s1 := if s.modified then recompute s else s
        match s1.cache with
        | none => (s1, false)
        | some (snap, _) =>
          if s1.sides ≠ argSide arg s.a.cplx ∧ s1.a.cplx ∧ argSide arg s.a.cplx = .one then (s1, true)
          else ({ s1 with cache := some (snap, argSide arg s.a.cplx), sides := argSide arg s.a.cplx,
                          modified := false }, false) := by
  cases arg <;> rfl

theorem step_inv (s : ObjState) (op : ObjOp) (h : ObjInv s) : ObjInv (objStep s op).1 := by
  cases op with
  | setNfft n => exact applyNfft_inv s n h
  | setNfftNone => exact applyNfft_inv s _ h
  | setNfftPow2 => exact applyNfft_inv s _ h
  | call => exact recompute_inv s h
  | read =>
    simp only [objStep]
    split
    · exact recompute_inv s h
    · exact h
  | setSides arg =>
    rw [objStep_setSides]
    rcases s with ⟨a, sides, cache, modified, rn, rs, par⟩
    generalize argSide arg a.cplx = tgt
    rcases cache with _ | ⟨snap, sd⟩
    · simp only [ObjInv] at *
      grind
    · cases modified
      · simp only [ObjInv, Bool.false_eq_true, if_false] at *
        split <;> grind
      · simp only [ObjInv, recompute, if_true] at *
        split <;> grind
  | _ =>
    simp only [objStep, ObjInv] at *
    grind

theorem run_inv (s : ObjState) (ops : List ObjOp) (h : ObjInv s) : ObjInv (objRun s ops) := by
  induction ops generalizing s with
  | nil => exact h
  | cons o os ih => exact ih _ (step_inv s o h)

theorem init_inv (a : Attrs) (par : Bool) : ObjInv (objInit a par) := by
  simp [ObjInv, objInit]

theorem objRun_cons (s : ObjState) (op : ObjOp) (ops : List ObjOp) :
    objRun s (op :: ops) = objRun (objStep s op).1 ops := rfl

theorem objRun_nil (s : ObjState) : objRun s [] = s := rfl

theorem objRun_append (s : ObjState) (l₁ l₂ : List ObjOp) :
    objRun s (l₁ ++ l₂) = objRun (objRun s l₁) l₂ := by
  simp [objRun, List.foldl_append]

/-- the state after a read, in closed form -/
theorem read_state (s : ObjState) (h : ObjInv s) :
    (objStep s .read).1 =
      { s with cache := some (s.a, (objStep s .read).1.sides), sides := (objStep s .read).1.sides,
               modified := false } := by
  simp only [objStep, ObjInv, recompute] at *
  rcases s with ⟨a, sides, cache, modified, rn, rs, par⟩
  rcases cache with _ | ⟨snap, sd⟩ <;> cases modified <;> simp_all


/-! ### a second invariant: a stored, up-to-date PSD of complex data is never one-sided -/

/-- An up-to-date stored PSD of complex data is never in the one-sided representation. -/
def SideOk (s : ObjState) : Prop :=
  s.modified = false → s.cache.isSome = true → ¬(s.a.cplx = true ∧ s.sides = .one)

theorem init_sideOk (a : Attrs) (par : Bool) : SideOk (objInit a par) := by
  simp [SideOk, objInit]

theorem recompute_sideOk (s : ObjState) : SideOk (recompute s) := by
  simp only [SideOk, recompute, defaultSide]
  grind

theorem applyNfft_sideOk (s : ObjState) (n : Nat) (h : SideOk s) : SideOk (applyNfft s n) := by
  simp only [SideOk, applyNfft] at *
  split <;> grind

theorem step_sideOk (s : ObjState) (op : ObjOp) (h : SideOk s) : SideOk (objStep s op).1 := by
  cases op with
  | setNfft n => exact applyNfft_sideOk s n h
  | setNfftNone => exact applyNfft_sideOk s _ h
  | setNfftPow2 => exact applyNfft_sideOk s _ h
  | call => exact recompute_sideOk s
  | read =>
    simp only [objStep]
    split
    · exact recompute_sideOk s
    · exact h
  | setSides arg =>
    rw [objStep_setSides]
    rcases s with ⟨a, sides, cache, modified, rn, rs, par⟩
    generalize argSide arg a.cplx = tgt
    rcases cache with _ | ⟨snap, sd⟩
    · simp [SideOk]
    · cases modified
      · simp only [SideOk, Bool.false_eq_true, if_false] at *
        split <;> grind
      · simp only [SideOk, recompute, defaultSide, if_true] at *
        split <;> grind
  | _ =>
    simp only [objStep, SideOk] at *
    grind

theorem run_sideOk (s : ObjState) (ops : List ObjOp) (h : SideOk s) : SideOk (objRun s ops) := by
  induction ops generalizing s with
  | nil => exact h
  | cons o os ih => exact ih _ (step_sideOk s o h)

/-- every operation except `setData`/NFFT/... keeps `a`; in particular `setSides`, `call`, `read` -/
theorem setSides_attrs (s : ObjState) (arg : SideArg) : (objStep s (.setSides arg)).1.a = s.a := by
  rw [objStep_setSides]
  rcases s with ⟨a, sides, cache, modified, rn, rs, par⟩
  generalize argSide arg a.cplx = tgt
  rcases cache with _ | ⟨snap, sd⟩
  · rfl
  · cases modified
    · simp only [Bool.false_eq_true, if_false]
      split <;> rfl
    · simp only [recompute, if_true]
      split <;> rfl

/-- the cache after a read in a reachable state: the estimate of the current attributes -/
theorem read_cache (s : ObjState) (h : ObjInv s) :
    (objStep s .read).1.cache = some (s.a, (objStep s .read).1.sides) := by
  rw [read_state s h]

/-- a read in a state marked `modified` recomputes in the default representation -/
theorem read_of_modified (s : ObjState) (hm : s.modified = true) :
    (objStep s .read).1 = recompute s := by
  simp [objStep, hm]

/-! ### `nextPow2` -/

theorem nextPow2_go_ge (n : Nat) : ∀ (fuel p : Nat), n ≤ p * 2 ^ fuel → n ≤ nextPow2.go n fuel p := by
  intro fuel
  induction fuel with
  | zero => intro p h; simpa [nextPow2.go] using h
  | succ f ih =>
    intro p h
    simp only [nextPow2.go]
    split
    · assumption
    · apply ih
      rw [Nat.pow_succ] at h
      calc n ≤ p * (2 ^ f * 2) := h
        _ = 2 * p * 2 ^ f := by rw [Nat.mul_comm (2 ^ f) 2, ← Nat.mul_assoc, Nat.mul_comm p 2]

theorem nextPow2_go_pow (n : Nat) : ∀ (fuel k : Nat), ∃ j, nextPow2.go n fuel (2 ^ k) = 2 ^ j ∧ k ≤ j ∧
    (∀ i, k ≤ i → i < j → 2 ^ i < n) := by
  intro fuel
  induction fuel with
  | zero => intro k; exact ⟨k, rfl, Nat.le_refl _, fun i h1 h2 => absurd h1 (Nat.not_le.mpr h2)⟩
  | succ f ih =>
    intro k
    simp only [nextPow2.go]
    split
    · exact ⟨k, rfl, Nat.le_refl _, fun i h1 h2 => absurd h1 (Nat.not_le.mpr h2)⟩
    · rename_i hlt
      obtain ⟨j, hj, hkj, hmin⟩ := ih (k + 1)
      rw [Nat.pow_succ, Nat.mul_comm] at hj
      refine ⟨j, hj, by omega, ?_⟩
      intro i h1 h2
      by_cases hik : i = k
      · subst hik; omega
      · exact hmin i (by omega) h2

end SpecVerif.ObjL
