import SpecVerif.Proofs.Lemmas.Mtm
import SpecVerif.Proofs.Lemmas.Sides
import SpecVerif.Proofs.Lemmas.Scale
import SpecVerif.Proofs.Lemmas.Shift
import SpecVerif.Proofs.Lemmas.Grid
/-
  Whole-loop invariance of the adaptive multitaper weighting (`adaptLoop`, `pmtmWeights .adapt`,
  `mtMean .adapt` of `SpecVerif/Model/Mtm.lean`): two runs of Thomson's iteration whose start states are
  related (scaled by `t`, or rotated by `m` bins) take the SAME stopping decisions at every pass and end
  in related states, whatever the fuel and whatever the start state.  `pmtmWeights .adapt` is one unconditional
  pass (`adaptStep`, kept by the relations: `scaleRel_step`, `rotRel_step`) followed by the conditional loop with
  fuel 99.  Used by C03 (amplitude) and C04 (frequency shift).
-/
namespace SpecVerif.AdaptL
open Finset SpecVerif SpecVerif.ArmaL SpecVerif.MtmL SpecVerif.ShiftL

variable {K : Type} [Field K]

/-! ### two loops run in lock-step -/

/-- if a relation between loop states is kept by a pair of passes and forces the two `while` tests to
    agree, the two loops (same fuel) end in related states -/
theorem adaptLoop_rel [ReOrd K] (R : AdaptState K → AdaptState K → Prop)
    (Sk' Sk : List (List K)) (lams : List K) (sig2' sig2 tol' tol : K) (nfft nwin : ℕ)
    (hstep : ∀ a b, R a b →
      R (adaptStep Sk' lams sig2' nfft nwin a) (adaptStep Sk lams sig2 nfft nwin b))
    (htest : ∀ a b, R a b → reGt (adaptDist nfft a) tol' = reGt (adaptDist nfft b) tol)
    (fuel : ℕ) (a b : AdaptState K) (h : R a b) :
    R (adaptLoop Sk' lams sig2' tol' nfft nwin fuel a)
      (adaptLoop Sk lams sig2 tol nfft nwin fuel b) := by
  induction fuel generalizing a b with
  | zero => exact h
  | succ fuel ih =>
    rw [adaptLoop_succ, adaptLoop_succ, htest a b h]
    by_cases hb : reGt (adaptDist nfft b) tol = true
    · rw [if_pos hb, if_pos hb]
      exact ih _ _ (hstep a b h)
    · rw [if_neg hb, if_neg hb]
      exact h

/-- a list of rows is the `vec` of its total row look-ups -/
theorem eq_vec_getD {α : Type} (l : List α) (d : α) : l = vec l.length (fun k => l.getD k d) := by
  apply List.ext_getElem
  · simp
  · intro i h1 h2
    rw [vec_getElem]
    simp [List.getD_eq_getElem?_getD, h1]

/-! ### amplitude: `S`, `S1`, `σ²`, tolerance multiplied by `t`; weights and counter equal -/

/-- entry `(τ, f)` of the table with every entry multiplied by `t` (total look-ups) -/
theorem nth_getD_map_scale (t : K) (Sk : List (List K)) (τ f : ℕ) :
    nth ((Sk.map (fun r => r.map (fun v => t * v))).getD τ []) f = t * nth (Sk.getD τ []) f := by
  rw [List.getD_eq_getElem?_getD, List.getD_eq_getElem?_getD, List.getElem?_map]
  cases Sk[τ]? with
  | none => simp [nth]
  | some r =>
    simp only [Option.map_some, Option.getD_some]
    exact nth_map_mul_left t r f

/-- the relation between the loop state of the scaled problem (`a`) and of the original one (`b`) -/
def ScaleRel (t : K) (nfft : ℕ) (a b : AdaptState K) : Prop :=
  (∀ f, f < nfft → nth a.S f = t * nth b.S f) ∧
  (∀ f, f < nfft → nth a.S1 f = t * nth b.S1 f) ∧
  a.wk = b.wk ∧ a.i = b.i

theorem scaleRel_step {t : K} (ht : t ≠ 0) (Sk' Sk : List (List K)) (lams : List K) (sig2 : K)
    (nfft nwin : ℕ)
    (hSk : ∀ τ f, f < nfft → nth (Sk'.getD τ []) f = t * nth (Sk.getD τ []) f)
    (a b : AdaptState K) (h : ScaleRel t nfft a b) :
    ScaleRel t nfft (adaptStep Sk' lams (t * sig2) nfft nwin a)
      (adaptStep Sk lams sig2 nfft nwin b) := by
  have hwk : (adaptStep Sk' lams (t * sig2) nfft nwin a).wk
      = (adaptStep Sk lams sig2 nfft nwin b).wk := by
    rw [adaptStep_wk, adaptStep_wk]
    apply vec_ext
    intro f hf
    apply vec_ext
    intro τ _
    rw [h.1 f hf, adaptWeight_scale _ _ _ _ ht]
  refine ⟨?_, ?_, hwk, ?_⟩
  · intro f hf
    rw [adaptStep_S_entry _ _ _ _ _ _ hf, adaptStep_S_entry _ _ _ _ _ _ hf, hwk, ← mul_div_assoc,
      Finset.mul_sum]
    congr 1
    apply Finset.sum_congr rfl
    intro τ _
    rw [hSk τ f hf]
    ring
  · intro f hf
    rw [adaptStep_S1, adaptStep_S1]
    exact h.1 f hf
  · rw [adaptStep_i, adaptStep_i, h.2.2.2]

theorem scaleRel_init (t : K) (lams : List K) (Sk' Sk : List (List K)) (nfft : ℕ)
    (hSk : ∀ τ f, f < nfft → nth (Sk'.getD τ []) f = t * nth (Sk.getD τ []) f) :
    ScaleRel t nfft (adaptInit lams Sk' nfft) (adaptInit lams Sk nfft) := by
  refine ⟨?_, ?_, rfl, rfl⟩
  · intro f hf
    show nth (vec nfft (fun f => (nth (Sk'.getD 0 []) f + nth (Sk'.getD 1 []) f) / 2)) f
      = t * nth (vec nfft (fun f => (nth (Sk.getD 0 []) f + nth (Sk.getD 1 []) f) / 2)) f
    rw [nth_vec, nth_vec, if_pos hf, if_pos hf, hSk 0 f hf, hSk 1 f hf]
    ring
  · intro f hf
    show nth (vec nfft (fun _ => (0 : K))) f = t * nth (vec nfft (fun _ => (0 : K))) f
    rw [nth_vec, if_pos hf, mul_zero]

section ScaleOrd
variable [ReOrd K]

/-- `|t z| = t |z|` for the model's absolute value when the sign test does not see `t` -/
theorem absRe_scale {t : K} (hre : ∀ z : K, reLe0 (t * z) = reLe0 z) (z : K) :
    absRe (t * z) = t * absRe z := by
  unfold absRe
  rw [hre]
  split
  · ring
  · rfl

theorem adaptDist_scale {t : K} (hre : ∀ z : K, reLe0 (t * z) = reLe0 z) {nfft : ℕ}
    {a b : AdaptState K} (h : ScaleRel t nfft a b) : adaptDist nfft a = t * adaptDist nfft b := by
  unfold adaptDist
  rw [← mul_div_assoc, Finset.mul_sum]
  congr 1
  apply Finset.sum_congr rfl
  intro f hf
  rw [h.1 f (mem_range.mp hf), h.2.1 f (mem_range.mp hf), ← mul_sub, absRe_scale hre]

/-- **the whole loop**: with the eigenspectra, the data power and the tolerance all multiplied by `t`
    the loop makes the same number of passes and ends in the scaled state with the same weights -/
theorem adaptLoop_scale {t : K} (ht : t ≠ 0) (hgt : ∀ a b : K, reGt (t * a) (t * b) = reGt a b)
    (hre : ∀ z : K, reLe0 (t * z) = reLe0 z) (Sk' Sk : List (List K)) (lams : List K)
    (sig2 tol : K) (nfft nwin : ℕ)
    (hSk : ∀ τ f, f < nfft → nth (Sk'.getD τ []) f = t * nth (Sk.getD τ []) f) (fuel : ℕ)
    (a b : AdaptState K) (h : ScaleRel t nfft a b) :
    ScaleRel t nfft (adaptLoop Sk' lams (t * sig2) (t * tol) nfft nwin fuel a)
      (adaptLoop Sk lams sig2 tol nfft nwin fuel b) :=
  adaptLoop_rel (ScaleRel t nfft) Sk' Sk lams (t * sig2) sig2 (t * tol) tol nfft nwin
    (scaleRel_step ht Sk' Sk lams sig2 nfft nwin hSk)
    (fun a b hab => by rw [adaptDist_scale hre hab, hgt]) fuel a b h

end ScaleOrd

section ScaleData
variable [StarRing K]

/-- the data power `Σ|x_j|²/N` of `c • x` is `|c|²` times the one of `x` -/
theorem adaptSig2_scale (c : K) (x : List K) :
    adaptSig2 (x.map (fun v => c * v)) = (c * star c) * adaptSig2 x := by
  unfold adaptSig2
  rw [List.length_map, ← mul_div_assoc, Finset.mul_sum]
  congr 1
  apply Finset.sum_congr rfl
  intro j _
  rw [nth_map_mul_left, star_mul']
  ring

/-- `pmtm(method='adapt')`: the weights of `c • x` with the scaled table are the weights of `x` -/
theorem pmtmWeights_adapt_scale [ReOrd K] {t : K} (ht : t ≠ 0)
    (hgt : ∀ a b : K, reGt (t * a) (t * b) = reGt a b) (hre : ∀ z : K, reLe0 (t * z) = reLe0 z)
    {c : K} (hct : c * star c = t) (x lams : List K) (SkA' SkA : List (List K)) (nfft : ℕ)
    (tolc : K) (hSk : ∀ τ f, f < nfft → nth (SkA'.getD τ []) f = t * nth (SkA.getD τ []) f) :
    pmtmWeights .adapt (x.map (fun v => c * v)) lams SkA' nfft tolc
      = pmtmWeights .adapt x lams SkA nfft tolc := by
  rw [pmtmWeights_adapt, pmtmWeights_adapt, adaptSig2_scale, hct]
  have e : tolc * (t * adaptSig2 x) / (nfft : K) = t * (tolc * adaptSig2 x / (nfft : K)) := by ring
  rw [e]
  exact (adaptLoop_scale ht hgt hre SkA' SkA lams (adaptSig2 x) _ nfft lams.length hSk 99 _ _
    (scaleRel_step ht SkA' SkA lams (adaptSig2 x) nfft lams.length hSk _ _
      (scaleRel_init t lams SkA' SkA nfft hSk))).2.2.1

end ScaleData

/-- the adaptive class mean is linear in the table of squared eigenspectra (any weights) -/
theorem mtMean_adapt_scale (t : K) (SkA' SkA W : List (List K)) (nfft nwin : ℕ)
    (hSk : ∀ τ f, f < nfft → nth (SkA'.getD τ []) f = t * nth (SkA.getD τ []) f) :
    mtMean .adapt SkA' W nfft nwin = (mtMean .adapt SkA W nfft nwin).map (fun v => t * v) := by
  apply list_ext_nth
  · rw [mtMean_length, List.length_map, mtMean_length]
  · intro f hf
    rw [mtMean_length] at hf
    rw [nth_map_mul_left, nth_mtMean_adapt _ _ _ hf, nth_mtMean_adapt _ _ _ hf, ← mul_div_assoc,
      Finset.mul_sum]
    congr 1
    apply Finset.sum_congr rfl
    intro τ _
    rw [hSk τ f hf]
    ring

/-- the table of `|eigenspectrum|²` of `c • x` is the table of `x` with every entry multiplied by `|c|²` -/
theorem mtSkAbs2_scale [StarRing K] (tw x : List K) (tapers : List (List K)) (n : ℕ) (c : K) :
    mtSkAbs2 tw (x.map (fun v => c * v)) tapers n
      = (mtSkAbs2 tw x tapers n).map (fun r => r.map (fun v => (c * star c) * v)) := by
  unfold mtSkAbs2
  rw [List.map_map]
  apply List.map_congr_left
  intro tp _
  simp only [Function.comp]
  rw [eigenspectrum_smul, List.map_map, List.map_map]
  apply List.map_congr_left
  intro v _
  simp only [Function.comp, abs2_eq, star_mul']
  ring

/-- the two names of the table (`GridL.mtSkA` of C05, `ShiftL.mtSkAbs2` of C04) are the same list -/
theorem mtSkA_eq_mtSkAbs2 [StarRing K] (tw x : List K) (tapers : List (List K)) (n : ℕ) :
    GridL.mtSkA tw x tapers n = mtSkAbs2 tw x tapers n := by
  unfold GridL.mtSkA mtSkAbs2
  rw [List.map_map]
  rfl

/-! the order hypotheses for `t = |c|²` over `ℝ`, `ℂ` -/

section Guard
variable {F : Type} [RCLike F] [ReOrd F]

theorem reGt_abs2_mul (hgt : ∀ a b : F, reGt a b = true ↔ RCLike.re a > RCLike.re b) {c : F}
    (hc : c ≠ 0) (a b : F) : reGt ((c * star c) * a) ((c * star c) * b) = reGt a b := by
  rw [BurgL.mul_star_ofReal]
  exact ScaleL.reGt_abs_mul hgt (pow_pos (norm_pos_iff.mpr hc) 2) a b

end Guard

/-! ### frequency shift: `S`, `S1` and the rows of the weights rotated by `m` bins -/

/-- the relation between the loop state of the rotated problem (`a`) and of the original one (`b`) -/
def RotRel (n m : ℕ) (a b : AdaptState K) : Prop :=
  (∀ k, k < n → nth a.S k = nth b.S ((k + n - m) % n)) ∧
  (∀ k, k < n → nth a.S1 k = nth b.S1 ((k + n - m) % n)) ∧
  (∀ k, k < n → a.wk.getD k [] = b.wk.getD ((k + n - m) % n) []) ∧ a.i = b.i

/-- a sum over all bins does not see a rotation of the bins -/
theorem sum_rot {n m : ℕ} (hm : m ≤ n) (g : ℕ → K) :
    ∑ k ∈ range n, g ((k + n - m) % n) = ∑ k ∈ range n, g k := by
  rw [← sum_rotate n (n - m) (by omega) g]
  apply Finset.sum_congr rfl
  intro k _
  have : k + n - m = k + (n - m) := by omega
  rw [this]

theorem rotRel_step {n m : ℕ} (Sk' Sk : List (List K)) (lams : List K) (sig2 : K) (nwin : ℕ)
    (hSk : ∀ τ k, k < n → nth (Sk'.getD τ []) k = nth (Sk.getD τ []) ((k + n - m) % n))
    (a b : AdaptState K) (h : RotRel n m a b) :
    RotRel n m (adaptStep Sk' lams sig2 n nwin a) (adaptStep Sk lams sig2 n nwin b) := by
  have hwk : ∀ k, k < n → (adaptStep Sk' lams sig2 n nwin a).wk.getD k []
      = (adaptStep Sk lams sig2 n nwin b).wk.getD ((k + n - m) % n) [] := by
    intro k hk
    have hk' : (k + n - m) % n < n := Nat.mod_lt _ (by omega)
    rw [adaptStep_wk, adaptStep_wk, getD_vec_lt _ hk, getD_vec_lt _ hk', h.1 k hk]
  refine ⟨?_, ?_, hwk, ?_⟩
  · intro k hk
    have hk' : (k + n - m) % n < n := Nat.mod_lt _ (by omega)
    rw [adaptStep_S_entry _ _ _ _ _ _ hk, adaptStep_S_entry _ _ _ _ _ _ hk', hwk k hk]
    congr 1
    apply Finset.sum_congr rfl
    intro τ _
    rw [hSk τ k hk]
  · intro k hk
    rw [adaptStep_S1, adaptStep_S1]
    exact h.1 k hk
  · rw [adaptStep_i, adaptStep_i, h.2.2.2]

theorem rotRel_init {n m : ℕ} (lams : List K) (Sk' Sk : List (List K))
    (hSk : ∀ τ k, k < n → nth (Sk'.getD τ []) k = nth (Sk.getD τ []) ((k + n - m) % n)) :
    RotRel n m (adaptInit lams Sk' n) (adaptInit lams Sk n) := by
  refine ⟨?_, ?_, ?_, rfl⟩
  · intro k hk
    have hk' : (k + n - m) % n < n := Nat.mod_lt _ (by omega)
    show nth (vec n (fun f => (nth (Sk'.getD 0 []) f + nth (Sk'.getD 1 []) f) / 2)) k
      = nth (vec n (fun f => (nth (Sk.getD 0 []) f + nth (Sk.getD 1 []) f) / 2)) ((k + n - m) % n)
    rw [nth_vec, nth_vec, if_pos hk, if_pos hk', hSk 0 k hk, hSk 1 k hk]
  · intro k hk
    have hk' : (k + n - m) % n < n := Nat.mod_lt _ (by omega)
    show nth (vec n (fun _ => (0 : K))) k = nth (vec n (fun _ => (0 : K))) ((k + n - m) % n)
    rw [nth_vec, nth_vec, if_pos hk, if_pos hk']
  · intro k hk
    have hk' : (k + n - m) % n < n := Nat.mod_lt _ (by omega)
    show (vec n (fun _ => vec lams.length (fun t => nth lams t))).getD k []
      = (vec n (fun _ => vec lams.length (fun t => nth lams t))).getD ((k + n - m) % n) []
    rw [getD_vec_lt _ hk, getD_vec_lt _ hk']

section RotOrd
variable [ReOrd K]

/-- the quantity of the `while` test is a sum over all bins: it does not see the rotation -/
theorem adaptDist_rot {n m : ℕ} (hm : m ≤ n) {a b : AdaptState K} (h : RotRel n m a b) :
    adaptDist n a = adaptDist n b := by
  unfold adaptDist
  congr 1
  rw [← sum_rot hm (fun j => absRe (nth b.S j - nth b.S1 j))]
  apply Finset.sum_congr rfl
  intro k hk
  rw [h.1 k (mem_range.mp hk), h.2.1 k (mem_range.mp hk)]

/-- **the whole loop**: with every row of the table rotated by `m` bins the loop makes the same number
    of passes and ends in the rotated state -/
theorem adaptLoop_rot {n m : ℕ} (hm : m ≤ n) (Sk' Sk : List (List K)) (lams : List K)
    (sig2 tol : K) (nwin : ℕ)
    (hSk : ∀ τ k, k < n → nth (Sk'.getD τ []) k = nth (Sk.getD τ []) ((k + n - m) % n))
    (fuel : ℕ) (a b : AdaptState K) (h : RotRel n m a b) :
    RotRel n m (adaptLoop Sk' lams sig2 tol n nwin fuel a)
      (adaptLoop Sk lams sig2 tol n nwin fuel b) :=
  adaptLoop_rel (RotRel n m) Sk' Sk lams sig2 sig2 tol tol n nwin
    (rotRel_step Sk' Sk lams sig2 nwin hSk)
    (fun a b hab => by rw [adaptDist_rot hm hab]) fuel a b h

variable [StarRing K]

/-- `pmtm(method='adapt')`: row `k` of the weights of the rotated problem is row `k - m (mod n)` -/
theorem pmtmWeights_adapt_rot_row {n m : ℕ} (hm : m ≤ n) (x' x lams : List K)
    (SkA' SkA : List (List K)) (tolc : K) (hsig : adaptSig2 x' = adaptSig2 x)
    (hSk : ∀ τ k, k < n → nth (SkA'.getD τ []) k = nth (SkA.getD τ []) ((k + n - m) % n))
    {k : ℕ} (hk : k < n) :
    (pmtmWeights .adapt x' lams SkA' n tolc).getD k []
      = (pmtmWeights .adapt x lams SkA n tolc).getD ((k + n - m) % n) [] := by
  rw [pmtmWeights_adapt, pmtmWeights_adapt, hsig]
  exact (adaptLoop_rot hm SkA' SkA lams (adaptSig2 x) _ lams.length hSk 99 _ _
    (rotRel_step SkA' SkA lams (adaptSig2 x) lams.length hSk _ _
      (rotRel_init lams SkA' SkA hSk))).2.2.1 k hk

/-- the same as a table: `numpy.roll(W, m, axis=0)` -/
theorem pmtmWeights_adapt_rot {n m : ℕ} (hm : m ≤ n) (x' x lams : List K)
    (SkA' SkA : List (List K)) (tolc : K) (hsig : adaptSig2 x' = adaptSig2 x)
    (hSk : ∀ τ k, k < n → nth (SkA'.getD τ []) k = nth (SkA.getD τ []) ((k + n - m) % n)) :
    pmtmWeights .adapt x' lams SkA' n tolc
      = vec n (fun k => (pmtmWeights .adapt x lams SkA n tolc).getD ((k + n - m) % n) []) := by
  have hlen : (pmtmWeights .adapt x' lams SkA' n tolc).length = n := by
    rw [pmtmWeights_adapt]
    exact (adaptLoop_shape SkA' lams _ _ n lams.length 99 _ (wkShape_vec n lams.length _)).1
  rw [eq_vec_getD (pmtmWeights .adapt x' lams SkA' n tolc) [], hlen]
  exact vec_ext (fun k hk => pmtmWeights_adapt_rot_row hm x' x lams SkA' SkA tolc hsig hSk hk)

omit [ReOrd K] in
/-- the energy `Σ|x_j|²` of the modulated data (`|μ| = 1`) is the energy of the data -/
theorem energy_modulate {μ : K} (hμ : μ * star μ = 1) (x : List K) :
    ∑ j ∈ range (modulate μ x).length, nth (modulate μ x) j * star (nth (modulate μ x) j)
      = ∑ j ∈ range x.length, nth x j * star (nth x j) := by
  rw [modulate_length]
  apply Finset.sum_congr rfl
  intro j _
  have e : μ ^ j * star μ ^ j = 1 := by rw [← mul_pow, hμ, one_pow]
  rw [nth_modulate, star_mul', star_pow]
  calc μ ^ j * nth x j * (star μ ^ j * star (nth x j))
      = (μ ^ j * star μ ^ j) * (nth x j * star (nth x j)) := by ring
    _ = nth x j * star (nth x j) := by rw [e, one_mul]

omit [ReOrd K] in
/-- hence the data power `σ²` is the same -/
theorem adaptSig2_modulate {μ : K} (hμ : μ * star μ = 1) (x : List K) :
    adaptSig2 (modulate μ x) = adaptSig2 x := by
  unfold adaptSig2
  rw [energy_modulate hμ, modulate_length]

end RotOrd

/-- the adaptive class mean with rotated rows of the table and rotated rows of the weights is the
    rotated mean -/
theorem mtMean_adapt_rot {n m : ℕ} (hm : m < n) (SkA' SkA W' W : List (List K)) (nwin : ℕ)
    (hSk : ∀ τ k, k < n → nth (SkA'.getD τ []) k = nth (SkA.getD τ []) ((k + n - m) % n))
    (hW : ∀ k, k < n → W'.getD k [] = W.getD ((k + n - m) % n) []) :
    mtMean .adapt SkA' W' n nwin = cshift (mtMean .adapt SkA W n nwin) m := by
  refine eq_cshift_of_entries (mtMean_length _ _ _ _ _) (mtMean_length _ _ _ _ _) hm (fun k hk => ?_)
  have hk' : (k + n - m) % n < n := Nat.mod_lt _ (by omega)
  rw [nth_mtMean_adapt _ _ _ hk, nth_mtMean_adapt _ _ _ hk', hW k hk]
  congr 1
  apply Finset.sum_congr rfl
  intro τ _
  rw [hSk τ k hk]

end SpecVerif.AdaptL
