import SpecVerif.Model.EigenCrit
import SpecVerif.Proofs.Lemmas.Basic
import SpecVerif.Proofs.Lemmas.LinPred
import Mathlib.Analysis.SpecialFunctions.Log.Basic
import Mathlib.Algebra.BigOperators.Field
import Mathlib.Tactic.FieldSimp
import Mathlib.Tactic.Ring
/-
  Helper lemmas for the subspace order-selection criteria (`Model/EigenCrit.lean`) over `ℝ`.
-/
namespace SpecVerif.EigenCritL
open Finset SpecVerif

/-- adding a constant to every entry does not move the first minimum -/
theorem argminGo_shift (c : ℝ) (xs : List ℝ) (best : ℝ) (bi i : ℕ) :
    argminGo (best + c) bi (xs.map (· + c)) i = argminGo best bi xs i := by
  induction xs generalizing best bi i with
  | nil => rfl
  | cons x xs ih =>
    simp only [List.map_cons, argminGo]
    have : RealFn.lt (x + c) (best + c) = RealFn.lt x best := by
      simp [RealFn.lt]
    rw [this]
    split
    · exact ih x i (i + 1)
    · exact ih best bi (i + 1)

theorem argminFirst_shift (c : ℝ) (xs : List ℝ) : argminFirst (xs.map (· + c)) = argminFirst xs := by
  cases xs with
  | nil => rfl
  | cons x xs => exact argminGo_shift c xs x 0 1

/-- the code's `ln(g_k/a_k)` of the scaled singular values: because the tail has `m − 1` entries while the divisor is `m`,
it moves by `−ln t / m` (it would be invariant with the textbook divisor) -/
theorem eigLnRatio_smul {t : ℝ} (ht : 0 < t) (s : List ℝ) (hs : ∀ i, i < s.length → 0 < s.getD i 0) (k : ℕ)
    (hk : k + 2 ≤ s.length) :
    eigLnRatio (s.map (t * ·)) k = eigLnRatio s k - Real.log t / ((s.length - k : ℕ) : ℝ) := by
  unfold eigLnRatio
  simp only [List.length_map, sumR_eq_sum, RealFn.log]
  have hm : ((s.length - k : ℕ) : ℝ) ≠ 0 := Nat.cast_ne_zero.mpr (by omega)
  have hget : ∀ j ∈ range (s.length - k - 1), (s.map (t * ·)).getD (k + 1 + j) 0 = t * s.getD (k + 1 + j) 0 := by
    intro j hj
    have hlt : k + 1 + j < s.length := by have := mem_range.mp hj; omega
    simp [List.getD_eq_getElem?_getD, hlt]
  have hpos : ∀ j ∈ range (s.length - k - 1), 0 < s.getD (k + 1 + j) 0 := by
    intro j hj
    exact hs _ (by have := mem_range.mp hj; omega)
  have hne : (range (s.length - k - 1)).Nonempty := ⟨0, mem_range.mpr (by omega)⟩
  have hsum_pos : 0 < ∑ j ∈ range (s.length - k - 1), s.getD (k + 1 + j) 0 := Finset.sum_pos hpos hne
  rw [Finset.sum_congr rfl (fun j hj => by rw [hget j hj, Real.log_mul ht.ne' (hpos j hj).ne']),
      Finset.sum_congr rfl (fun j hj => hget j hj), ← Finset.mul_sum, Finset.sum_add_distrib,
      Finset.sum_const, card_range, nsmul_eq_mul, mul_div_assoc,
      Real.log_mul ht.ne' (div_pos hsum_pos (by positivity)).ne']
  have hcast : ((s.length - k - 1 : ℕ) : ℝ) = ((s.length - k : ℕ) : ℝ) - 1 := by
    have : s.length - k - 1 + 1 = s.length - k := by omega
    rw [← this]; push_cast; ring
  rw [hcast]
  field_simp
  ring

end SpecVerif.EigenCritL
