import SpecVerif.Proofs.Lemmas.Dpss
import Mathlib.Analysis.SpecialFunctions.Integrals.Basic
import Mathlib.Analysis.SpecialFunctions.Complex.Log
import Mathlib.Algebra.Polynomial.Roots
/-
  The sinc concentration kernel `K[n,m] = sin(2πW(n-m))/(π(n-m))` (`2W` on the diagonal) satisfies
  `0 ≤ vᵀ K v ≤ vᵀ v` for `0 ≤ W ≤ 1/2`:

      vᵀ K v = ∫_{-W}^{W} |Σ_n v_n e^{2πifn}|² df        and        vᵀ v = ∫_{-1/2}^{1/2} |Σ_n v_n e^{2πifn}|² df.

  Real route: `|Σ_n v_n e^{2πifn}|² = (Σ v_n cos 2πfn)² + (Σ v_n sin 2πfn)² = Σ_{n,m} v_n v_m cos(2πf(n-m))`,
  integrated term by term.
-/
namespace SpecVerif.SincL
open Finset SpecVerif SpecVerif.DpssL

/-- the energy density `|Σ_{n<N} v_n e^{2πifn}|²` of the sequence `v` at frequency `f`, in real form -/
noncomputable def specDensity (N : ℕ) (v : ℕ → ℝ) (f : ℝ) : ℝ :=
  (∑ n ∈ range N, v n * Real.cos (2 * Real.pi * f * (n : ℝ))) ^ 2
    + (∑ n ∈ range N, v n * Real.sin (2 * Real.pi * f * (n : ℝ))) ^ 2

theorem specDensity_nonneg (N : ℕ) (v : ℕ → ℝ) (f : ℝ) : 0 ≤ specDensity N v f := by
  unfold specDensity; positivity

theorem specDensity_continuous (N : ℕ) (v : ℕ → ℝ) : Continuous (specDensity N v) := by
  unfold specDensity; fun_prop

/-- `|Σ_n v_n e^{2πifn}|² = Σ_{n,m} v_n v_m cos(2πf(n-m))` -/
theorem specDensity_eq_sum (N : ℕ) (v : ℕ → ℝ) (f : ℝ) :
    specDensity N v f
      = ∑ n ∈ range N, ∑ m ∈ range N, v n * v m * Real.cos (2 * Real.pi * ((n : ℝ) - (m : ℝ)) * f) := by
  unfold specDensity
  rw [sq, sq, Finset.sum_mul_sum, Finset.sum_mul_sum, ← Finset.sum_add_distrib]
  apply Finset.sum_congr rfl
  intro n _
  rw [← Finset.sum_add_distrib]
  apply Finset.sum_congr rfl
  intro m _
  rw [show 2 * Real.pi * ((n : ℝ) - (m : ℝ)) * f = 2 * Real.pi * f * (n : ℝ) - 2 * Real.pi * f * (m : ℝ) by ring,
    Real.cos_sub]
  ring

/-- `∫_a^b cos(c f) df = (sin(cb) - sin(ca))/c` for `c ≠ 0` -/
theorem integral_cos_mul {c : ℝ} (hc : c ≠ 0) (a b : ℝ) :
    ∫ f in a..b, Real.cos (c * f) = (Real.sin (c * b) - Real.sin (c * a)) / c := by
  rw [intervalIntegral.integral_comp_mul_left (fun x => Real.cos x) hc, integral_cos, smul_eq_mul]
  field_simp

/-- `∫_{-W}^{W} cos(2π(n-m)f) df = K[n,m]` -/
theorem integral_cos_eq_sincKernel (W : ℝ) (n m : ℕ) :
    ∫ f in (-W)..W, Real.cos (2 * Real.pi * ((n : ℝ) - (m : ℝ)) * f) = sincKernel W n m := by
  unfold sincKernel
  split_ifs with h
  · subst h
    simp
    ring
  · have hnm : (n : ℝ) - (m : ℝ) ≠ 0 := sub_ne_zero.mpr (by exact_mod_cast h)
    have hc : 2 * Real.pi * ((n : ℝ) - (m : ℝ)) ≠ 0 :=
      mul_ne_zero (mul_ne_zero two_ne_zero Real.pi_ne_zero) hnm
    rw [integral_cos_mul hc, mul_neg, Real.sin_neg,
      show 2 * Real.pi * ((n : ℝ) - (m : ℝ)) * W = 2 * Real.pi * W * ((n : ℝ) - (m : ℝ)) by ring]
    have hpi := Real.pi_ne_zero
    field_simp
    ring

/-- `∫_{-1/2}^{1/2} cos(2π(n-m)f) df = δ_{nm}` -/
theorem integral_cos_full (n m : ℕ) :
    ∫ f in (-(1 / 2 : ℝ))..(1 / 2), Real.cos (2 * Real.pi * ((n : ℝ) - (m : ℝ)) * f)
      = if n = m then 1 else 0 := by
  split_ifs with h
  · subst h
    simp
    norm_num
  · have hnm : (n : ℝ) - (m : ℝ) ≠ 0 := sub_ne_zero.mpr (by exact_mod_cast h)
    have hc : 2 * Real.pi * ((n : ℝ) - (m : ℝ)) ≠ 0 :=
      mul_ne_zero (mul_ne_zero two_ne_zero Real.pi_ne_zero) hnm
    rw [integral_cos_mul hc, mul_neg, Real.sin_neg]
    have hs : Real.sin (2 * Real.pi * ((n : ℝ) - (m : ℝ)) * (1 / 2)) = 0 := by
      rw [show 2 * Real.pi * ((n : ℝ) - (m : ℝ)) * (1 / 2) = (((n : ℤ) - (m : ℤ) : ℤ) : ℝ) * Real.pi by
        push_cast; ring]
      exact Real.sin_int_mul_pi _
    rw [hs]; simp

/-- term-by-term integration of the energy density over any interval -/
theorem integral_specDensity (N : ℕ) (v : ℕ → ℝ) (a b : ℝ) :
    ∫ f in a..b, specDensity N v f
      = ∑ n ∈ range N, ∑ m ∈ range N,
          v n * v m * ∫ f in a..b, Real.cos (2 * Real.pi * ((n : ℝ) - (m : ℝ)) * f) := by
  simp only [specDensity_eq_sum]
  rw [intervalIntegral.integral_finsetSum]
  · apply Finset.sum_congr rfl
    intro n _
    rw [intervalIntegral.integral_finsetSum]
    · apply Finset.sum_congr rfl
      intro m _
      rw [intervalIntegral.integral_const_mul]
    · intro m _
      exact (by fun_prop : Continuous fun f : ℝ =>
        v n * v m * Real.cos (2 * Real.pi * ((n : ℝ) - (m : ℝ)) * f)).intervalIntegrable _ _
  · intro n _
    exact (by fun_prop : Continuous fun f : ℝ =>
      ∑ m ∈ range N, v n * v m * Real.cos (2 * Real.pi * ((n : ℝ) - (m : ℝ)) * f)).intervalIntegrable _ _

/-- **in-band energy**: `vᵀ K v = ∫_{-W}^{W} |Σ_n v_n e^{2πifn}|² df` (any `W`) -/
theorem quadform_eq_integral (N : ℕ) (W : ℝ) (v : ℕ → ℝ) :
    ∑ n ∈ range N, ∑ m ∈ range N, v n * sincKernel W n m * v m = ∫ f in (-W)..W, specDensity N v f := by
  rw [integral_specDensity]
  apply Finset.sum_congr rfl
  intro n _
  apply Finset.sum_congr rfl
  intro m _
  rw [integral_cos_eq_sincKernel]; ring

/-- **Parseval**: `vᵀ v = ∫_{-1/2}^{1/2} |Σ_n v_n e^{2πifn}|² df` -/
theorem normsq_eq_integral (N : ℕ) (v : ℕ → ℝ) :
    ∑ n ∈ range N, v n * v n = ∫ f in (-(1 / 2 : ℝ))..(1 / 2), specDensity N v f := by
  rw [integral_specDensity]
  apply Finset.sum_congr rfl
  intro n hn
  simp only [integral_cos_full, mul_ite, mul_one, mul_zero]
  rw [Finset.sum_ite_eq (range N) n]
  simp [hn]

/-- `0 ≤ vᵀ K v` for `0 ≤ W` -/
theorem quadform_nonneg (N : ℕ) {W : ℝ} (h0 : 0 ≤ W) (v : ℕ → ℝ) :
    0 ≤ ∑ n ∈ range N, ∑ m ∈ range N, v n * sincKernel W n m * v m := by
  rw [quadform_eq_integral]
  exact intervalIntegral.integral_nonneg (by linarith) (fun f _ => specDensity_nonneg N v f)

/-- `vᵀ K v ≤ vᵀ v` for `0 ≤ W ≤ 1/2` -/
theorem quadform_le_normsq (N : ℕ) {W : ℝ} (h0 : 0 ≤ W) (h1 : W ≤ 1 / 2) (v : ℕ → ℝ) :
    ∑ n ∈ range N, ∑ m ∈ range N, v n * sincKernel W n m * v m ≤ ∑ n ∈ range N, v n * v n := by
  rw [quadform_eq_integral, normsq_eq_integral]
  apply intervalIntegral.integral_mono_interval (by linarith) (by linarith) h1
  · exact Filter.Eventually.of_forall (fun f => specDensity_nonneg N v f)
  · exact (specDensity_continuous N v).intervalIntegrable _ _

/-! ### strict bounds: a non-zero trigonometric polynomial does not vanish on an interval -/

/-- the complex polynomial `Σ_{n<N} v_n Xⁿ` -/
noncomputable def vpoly (N : ℕ) (v : ℕ → ℝ) : Polynomial ℂ :=
  ∑ n ∈ range N, Polynomial.C ((v n : ℝ) : ℂ) * Polynomial.X ^ n

theorem vpoly_coeff (N : ℕ) (v : ℕ → ℝ) {k : ℕ} (hk : k < N) : (vpoly N v).coeff k = ((v k : ℝ) : ℂ) := by
  unfold vpoly
  rw [Polynomial.finsetSum_coeff]
  simp only [Polynomial.coeff_C_mul_X_pow]
  rw [Finset.sum_ite_eq (range N) k]
  simp [hk]

/-- `Σ v_n zⁿ` at `z = e^{2πif}` is `Σ v_n cos 2πfn + i Σ v_n sin 2πfn` -/
theorem vpoly_eval (N : ℕ) (v : ℕ → ℝ) (f : ℝ) :
    (vpoly N v).eval (Complex.exp (((2 * Real.pi * f : ℝ) : ℂ) * Complex.I))
      = ((∑ n ∈ range N, v n * Real.cos (2 * Real.pi * f * (n : ℝ)) : ℝ) : ℂ)
        + ((∑ n ∈ range N, v n * Real.sin (2 * Real.pi * f * (n : ℝ)) : ℝ) : ℂ) * Complex.I := by
  unfold vpoly
  rw [Polynomial.eval_finsetSum]
  push_cast
  rw [Finset.sum_mul, ← Finset.sum_add_distrib]
  apply Finset.sum_congr rfl
  intro n _
  rw [Polynomial.eval_C_mul, Polynomial.eval_pow, Polynomial.eval_X, ← Complex.exp_nat_mul,
    show (n : ℂ) * (2 * (Real.pi : ℂ) * (f : ℂ) * Complex.I)
      = (2 * (Real.pi : ℂ) * (f : ℂ) * (n : ℂ)) * Complex.I by ring, Complex.exp_mul_I]
  ring

theorem specDensity_eq_zero_iff (N : ℕ) (v : ℕ → ℝ) (f : ℝ) :
    specDensity N v f = 0 ↔
      (vpoly N v).eval (Complex.exp (((2 * Real.pi * f : ℝ) : ℂ) * Complex.I)) = 0 := by
  rw [vpoly_eval]
  unfold specDensity
  generalize ∑ n ∈ range N, v n * Real.cos (2 * Real.pi * f * (n : ℝ)) = A
  generalize ∑ n ∈ range N, v n * Real.sin (2 * Real.pi * f * (n : ℝ)) = B
  constructor
  · intro h
    have h1 : A = 0 := by nlinarith [sq_nonneg A, sq_nonneg B]
    have h2 : B = 0 := by nlinarith [sq_nonneg A, sq_nonneg B]
    rw [h1, h2]; simp
  · intro h
    have hre := congrArg Complex.re h
    have him := congrArg Complex.im h
    simp at hre him
    rw [hre, him]; ring

/-- `f ↦ e^{2πif}` is injective on an interval of length `≤ 1/2` -/
theorem expMap_injOn {a b : ℝ} (hb : b ≤ a + 1 / 2) :
    Set.InjOn (fun f : ℝ => Complex.exp (((2 * Real.pi * f : ℝ) : ℂ) * Complex.I)) (Set.Icc a b) := by
  intro x hx y hy hxy
  simp only at hxy
  rw [Complex.exp_eq_exp_iff_exists_int] at hxy
  obtain ⟨k, hk⟩ := hxy
  have hpi : (Real.pi : ℂ) ≠ 0 := by exact_mod_cast Real.pi_ne_zero
  have h2 : ((x : ℝ) : ℂ) = ((y + k : ℝ) : ℂ) := by
    push_cast at hk ⊢
    have hI := Complex.I_ne_zero
    have : (2 * (Real.pi : ℂ) * Complex.I) * (x : ℂ) = (2 * (Real.pi : ℂ) * Complex.I) * ((y : ℂ) + (k : ℂ)) := by
      rw [show (2 * (Real.pi : ℂ) * Complex.I) * (x : ℂ) = 2 * (Real.pi : ℂ) * (x : ℂ) * Complex.I by ring, hk]; ring
    exact mul_left_cancel₀ (mul_ne_zero (mul_ne_zero two_ne_zero hpi) hI) this
  have h3 : x = y + k := by exact_mod_cast h2
  have hk1 : (k : ℝ) < 1 := by linarith [hx.1, hx.2, hy.1, hy.2]
  have hk2 : (-1 : ℝ) < k := by linarith [hx.1, hx.2, hy.1, hy.2]
  have hk0 : k = 0 := by
    have h4 : k < 1 := by exact_mod_cast hk1
    have h5 : -1 < k := by exact_mod_cast hk2
    omega
  rw [h3, hk0]; simp

/-- a sequence that is not zero on `[0,N)` has positive energy density somewhere in every interval -/
theorem exists_specDensity_pos (N : ℕ) (v : ℕ → ℝ) (hv : ∃ n, n < N ∧ v n ≠ 0) {a b : ℝ} (hab : a < b) :
    ∃ c ∈ Set.Icc a b, 0 < specDensity N v c := by
  by_contra hcon
  push Not at hcon
  have hz : ∀ c ∈ Set.Icc a b, specDensity N v c = 0 :=
    fun c hc => le_antisymm (hcon c hc) (specDensity_nonneg N v c)
  have hab' : a < min b (a + 1 / 2) := lt_min hab (by linarith)
  have hinf : (Set.Icc a (min b (a + 1 / 2))).Infinite := Set.Icc_infinite hab'
  have himg := hinf.image (expMap_injOn (min_le_right b (a + 1 / 2)))
  have hroots : {x | (vpoly N v).IsRoot x}.Infinite := by
    apply himg.mono
    rintro z ⟨c, hc, rfl⟩
    exact (specDensity_eq_zero_iff N v c).mp (hz c ⟨hc.1, hc.2.trans (min_le_left _ _)⟩)
  have hp := Polynomial.eq_zero_of_infinite_isRoot _ hroots
  obtain ⟨n, hn, hvn⟩ := hv
  have := vpoly_coeff N v hn
  rw [hp, Polynomial.coeff_zero] at this
  exact hvn (by exact_mod_cast this.symm)

theorem integral_specDensity_pos (N : ℕ) (v : ℕ → ℝ) (hv : ∃ n, n < N ∧ v n ≠ 0) {a b : ℝ} (hab : a < b) :
    0 < ∫ f in a..b, specDensity N v f :=
  intervalIntegral.integral_pos hab (specDensity_continuous N v).continuousOn
    (fun f _ => specDensity_nonneg N v f) (exists_specDensity_pos N v hv hab)

/-- `0 < vᵀ K v` for `0 < W` and `v ≠ 0` -/
theorem quadform_pos (N : ℕ) {W : ℝ} (h0 : 0 < W) (v : ℕ → ℝ) (hv : ∃ n, n < N ∧ v n ≠ 0) :
    0 < ∑ n ∈ range N, ∑ m ∈ range N, v n * sincKernel W n m * v m := by
  rw [quadform_eq_integral]
  exact integral_specDensity_pos N v hv (by linarith)

/-- `vᵀ K v < vᵀ v` for `0 ≤ W < 1/2` and `v ≠ 0` -/
theorem quadform_lt_normsq (N : ℕ) {W : ℝ} (h0 : 0 ≤ W) (h1 : W < 1 / 2) (v : ℕ → ℝ)
    (hv : ∃ n, n < N ∧ v n ≠ 0) :
    ∑ n ∈ range N, ∑ m ∈ range N, v n * sincKernel W n m * v m < ∑ n ∈ range N, v n * v n := by
  rw [quadform_eq_integral, normsq_eq_integral]
  have hint : ∀ a b : ℝ, IntervalIntegrable (specDensity N v) MeasureTheory.volume a b :=
    fun a b => (specDensity_continuous N v).intervalIntegrable a b
  rw [← intervalIntegral.integral_add_adjacent_intervals (hint (-(1 / 2)) W) (hint W (1 / 2))]
  have hle : ∫ f in (-W)..W, specDensity N v f ≤ ∫ f in (-(1 / 2 : ℝ))..W, specDensity N v f :=
    intervalIntegral.integral_mono_interval (by linarith) (by linarith) le_rfl
      (Filter.Eventually.of_forall (fun f => specDensity_nonneg N v f)) (hint _ _)
  have hpos := integral_specDensity_pos N v hv h1
  linarith

end SpecVerif.SincL
