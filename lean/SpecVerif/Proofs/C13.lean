import SpecVerif.Proofs.Lemmas.Burg
import SpecVerif.Proofs.Lemmas.SchurCohn
import Mathlib.Algebra.Star.Rat
import SpecVerif.Proofs.Lemmas.CRatField
import SpecVerif.Proofs.Lemmas.LinPred
import SpecVerif.Model.Criteria
import SpecVerif.Generated.CriteriaSrc
import Mathlib.Tactic.Ring
import Mathlib.Tactic.FieldSimp
/-
  C13 — Burg's method (`arburg`, model in `SpecVerif/Model/Burg.lean`).

  Conventions of the model: `N = x.length`; `burgRun x k` is the state after `k` stages: `.a` the AR
  coefficients `a_1..a_k` (no leading 1), `.ref` the reflection coefficients, `.rho` the prediction
  error power, `.ef`/`.eb` the forward/backward error arrays (length `N`).  Stage `k` (0-based)
  computes `burgK (burgRun x k) N k = (k_k, den_k)`: the live forward errors are `ef[j]`,
  `j = k+1..N-1`, each paired with the delayed backward error `eb[j-1]`, and `den_k` is Marple's
  recursive update `temp·den − |ef[k]|² − |eb[N-1]|²` of the energy sum over the live range.
  "Non-degenerate prediction error" is the hypothesis `den_i ≠ 0` for the stages involved (`k_i` is a
  quotient by `den_i`).

  Property theorems only (helper lemmas live in `Proofs/Lemmas/Burg.lean`, namespace `BurgL`).

  Stability is now PROVED for every order (last section, `burg_stable`): with non-degenerate stages
  all roots of the Burg polynomial `z^p + a_1 z^{p-1} + … + a_p` lie in the closed unit disc
  (`|k_i| ≤ 1`), and strictly inside the unit circle when all `|k_i| < 1` — by the Schur–Cohn theorem
  for the step-up recursion (`Proofs/Lemmas/SchurCohn.lean`, namespace `SpecVerif.SchurL`).
-/
namespace SpecVerif.C13
open Finset SpecVerif SpecVerif.BurgL

variable {K : Type} [Field K] [StarRing K]

/-- **shapes**: after `k` stages there are `k` AR coefficients and `k` reflection coefficients; the
error arrays always have the length of the data (at `k = 0` they are the data itself). -/
theorem burgRun_lengths (x : List K) (k : ℕ) :
    (burgRun x k).a.length = k ∧ (burgRun x k).ref.length = k ∧
    (burgRun x k).ef.length = x.length ∧ (burgRun x k).eb.length = x.length ∧
    (burgRun x 0).ef = x ∧ (burgRun x 0).eb = x :=
  ⟨burgRun_a_length x k, burgRun_ref_length x k, burgRun_ef_length x k, burgRun_eb_length x k,
    rfl, rfl⟩

/-- **AR vector = step-up of the reflection coefficients** (no hypothesis): the returned `a` is the
polynomial produced by `rc2poly` (repeated `levup`) from the returned reflection coefficients. -/
theorem burg_ar_eq_stepup (x : List K) (k : ℕ) (r0 : K) :
    (burgRun x k).a = (rc2poly (burgRun x k).ref r0).1 :=
  burgRun_a_eq_rc2poly x k r0

/-- the `i`-th returned reflection coefficient is the one computed at stage `i` -/
theorem burg_ref_eq_stage (x : List K) (p i : ℕ) (hi : i < p) :
    nth (burgRun x p).ref i = (burgK (burgRun x i) x.length i).1 :=
  nth_burgRun_ref x p i hi

/-- **variance product**: `rho_k = rho_0 · ∏ (1 - k_i conj k_i)` over the returned reflection
coefficients, with `rho_0 = (Σ_{j<N} x_j conj x_j) / N` the mean squared modulus of the data; this is
also the error output of `rc2poly` started from `rho_0`. -/
theorem burg_rho_product (x : List K) (k : ℕ) :
    (burgRun x k).rho
        = (burgInit x).rho * ((burgRun x k).ref.map (fun κ => 1 - κ * star κ)).prod ∧
    (burgRun x k).rho
        = (burgInit x).rho * ∏ i ∈ range k,
            (1 - nth (burgRun x k).ref i * star (nth (burgRun x k).ref i)) ∧
    (burgInit x).rho = (∑ j ∈ range x.length, nth x j * star (nth x j)) / (x.length : K) ∧
    (burgRun x k).rho = (rc2poly (burgRun x k).ref (burgInit x).rho).2 := by
  refine ⟨burgRun_rho_prod x k, ?_, burgInit_rho x, ?_⟩
  · rw [burgRun_rho_prod_range]
    congr 1
    apply Finset.prod_congr rfl
    intro i hi
    rw [nth_burgRun_ref x k i (mem_range.mp hi)]
  · rw [rc2poly_error', burgRun_rho_prod]
    congr 2
    apply List.map_congr_left
    intro κ _
    rw [mul_comm]

/-- **nesting**: the order-`q` reflection coefficients are the first `q` of the order-`p` ones. -/
theorem burg_nested (x : List K) (q p : ℕ) (h : q ≤ p) :
    (burgRun x q).ref = (burgRun x p).ref.take q :=
  burgRun_ref_take x q p h

/-! ### the wrapper `arburg` -/

/-- `order = 0` raises `ValueError` -/
theorem arburg_order_zero [ReOrd K] (x : List K) (useCrit : Bool) (stop : ℕ → K → Bool) :
    arburg x 0 useCrit stop = .error "value" := by
  unfold arburg
  rw [if_pos rfl]

/-- `order > N` raises `ValueError` -/
theorem arburg_order_gt [ReOrd K] (x : List K) (order : ℕ) (useCrit : Bool) (stop : ℕ → K → Bool)
    (h : order > x.length) : arburg x order useCrit stop = .error "value" := by
  unfold arburg
  by_cases h0 : order = 0
  · rw [if_pos h0]
  · rw [if_neg h0, if_pos h]

/-- the order kept by the selection loop is `≤ order`; it is the first `q` such that the criterion
at stage `q+1` exceeds the previous one (`stop (q+1) rho_{q+1}`), or `order` if there is none. -/
theorem burg_order_spec (stop : ℕ → K → Bool) (x : List K) (order : ℕ) :
    burgOrder stop x order ≤ order ∧
    (∀ j, j < burgOrder stop x order → stop (j + 1) (burgRun x (j + 1)).rho = false) ∧
    (burgOrder stop x order < order →
      stop (burgOrder stop x order + 1) (burgRun x (burgOrder stop x order + 1)).rho = true) :=
  burgOrder_spec stop x order

/-- **success, exactly**: `arburg` returns `s` iff the order is admissible, no stage `1..q` has error
power with real part `≤ 0`, and `s` is the plain Burg state of order `q`, where `q = order` without a
criterion and `q = burgOrder stop x order` with one. -/
theorem arburg_ok_iff [ReOrd K] (x : List K) (order : ℕ) (useCrit : Bool) (stop : ℕ → K → Bool)
    (s : BurgState K) :
    arburg x order useCrit stop = .ok s ↔
      order ≠ 0 ∧ order ≤ x.length ∧
      (∀ j, 1 ≤ j → j ≤ (if useCrit then burgOrder stop x order else order) →
        reLe0 (burgRun x j).rho = false) ∧
      s = burgRun x (if useCrit then burgOrder stop x order else order) := by
  unfold arburg
  by_cases h0 : order = 0
  · rw [if_pos h0]
    constructor
    · intro h; cases h
    · intro h; exact absurd h0 h.1
  rw [if_neg h0]
  by_cases h1 : order > x.length
  · rw [if_pos h1]
    constructor
    · intro h; cases h
    · intro h; omega
  rw [if_neg h1]
  simp only []
  rw [← any_range_succ_false_iff (fun j => reLe0 (burgRun x j).rho)]
  cases hany : (List.range (if useCrit = true then burgOrder stop x order else order)).any
      (fun j => reLe0 (burgRun x (j + 1)).rho) with
  | true =>
    simp
  | false =>
    simp only [Bool.false_eq_true, if_false]
    constructor
    · intro h
      refine ⟨h0, by omega, trivial, ?_⟩
      injection h with h
      exact h.symm
    · intro h
      rw [h.2.2.2]

/-- **with an order-selection criterion** (ANY `stop`), a successful result is exactly the Burg
model of some order `q ≤ order`, namely `q = burgOrder stop x order`. -/
theorem burg_criteria_is_burg [ReOrd K] (x : List K) (order : ℕ) (stop : ℕ → K → Bool)
    (s : BurgState K) (h : arburg x order true stop = .ok s) :
    ∃ q, q ≤ order ∧ q = burgOrder stop x order ∧ s = burgRun x q := by
  have := (arburg_ok_iff x order true stop s).mp h
  exact ⟨burgOrder stop x order, (burgOrder_spec stop x order).1, rfl, by simpa using this.2.2.2⟩

/-- non-vacuity of the wrapper theorems: for any guard that tests `a ≤ 0` on `ℚ`, `arburg [1,2,1]`
with order 1 and a criterion that never stops succeeds with the order-1 Burg model (`rho_1 = 18/25`). -/
example [ReOrd ℚ] (hre : ∀ a : ℚ, reLe0 a = decide (a ≤ 0)) :
    arburg ([1, 2, 1] : List ℚ) 1 true (fun _ _ => false) = .ok (burgRun [1, 2, 1] 1) := by
  rw [arburg_ok_iff]
  have hq : burgOrder (fun _ _ => false) ([1, 2, 1] : List ℚ) 1 = 1 := by
    simp [burgOrder]
  simp only [if_true, hq]
  refine ⟨by norm_num, by simp, ?_, trivial⟩
  intro j h1 h2
  have : j = 1 := by omega
  subst this
  rw [hre]
  simp [burgRun, burgInit, burgK, burgStep, nth, abs2, Finset.sum_range_succ]
  norm_num

/-- **without a criterion** a successful result is the Burg model of the requested order. -/
theorem burg_nocriteria_is_burg [ReOrd K] (x : List K) (order : ℕ) (stop : ℕ → K → Bool)
    (s : BurgState K) (h : arburg x order false stop = .ok s) :
    s = burgRun x order ∧ 1 ≤ order ∧ order ≤ x.length := by
  have := (arburg_ok_iff x order false stop s).mp h
  exact ⟨by simpa using this.2.2.2, by omega, this.2.1⟩

/-! ### Marple's denominator recursion and the optimality of each stage -/

/-- **denominator invariant**: if the data is non-empty in `K` (`(N : K) ≠ 0`), stage `k` exists
(`k + 1 ≤ N`) and the denominators of the earlier stages do not vanish, the recursively updated
denominator of stage `k` is the forward+backward error energy over the live range:
`den_k = Σ_{j=k+1}^{N-1} (|ef_k[j]|² + |eb_k[j-1]|²)`. -/
theorem burg_den_invariant (x : List K) (k : ℕ) (hN : (x.length : K) ≠ 0) (hk : k + 1 ≤ x.length)
    (hprev : ∀ i, i < k → (burgK (burgRun x i) x.length i).2 ≠ 0) :
    (burgK (burgRun x k) x.length k).2
      = ∑ j ∈ Ico (k + 1) x.length,
          (nth (burgRun x k).ef j * star (nth (burgRun x k).ef j)
            + nth (burgRun x k).eb (j - 1) * star (nth (burgRun x k).eb (j - 1))) :=
  bD_eq_liveDen x hN k hk hprev

/-- non-vacuity of `burg_den_invariant` (and of the theorems below): `x = [1, 2, 1]` over `ℚ`,
stage `k = 1`, with `den_0 = 10`. -/
example : (([1, 2, 1] : List ℚ).length : ℚ) ≠ 0 ∧ 1 + 1 ≤ ([1, 2, 1] : List ℚ).length ∧
    ∀ i, i < 1 → (burgK (burgRun ([1, 2, 1] : List ℚ) i) ([1, 2, 1] : List ℚ).length i).2 ≠ 0 := by
  refine ⟨by norm_num, by simp, ?_⟩
  intro i hi
  have : i = 0 := by omega
  subst this
  simp [burgRun, burgInit, burgK, nth, abs2, Finset.sum_range_succ]
  norm_num

/-- **the reflection coefficient in closed form**: under the same hypotheses,
`k_k = -2 Σ_{j=k+1}^{N-1} ef_k[j] conj(eb_k[j-1]) / Σ_{j=k+1}^{N-1} (|ef_k[j]|² + |eb_k[j-1]|²)`
(Burg's formula — the harmonic-mean estimate of the partial correlation). -/
theorem burg_k_formula (x : List K) (k : ℕ) (hN : (x.length : K) ≠ 0) (hk : k + 1 ≤ x.length)
    (hprev : ∀ i, i < k → (burgK (burgRun x i) x.length i).2 ≠ 0) :
    (burgK (burgRun x k) x.length k).1
      = -2 * (∑ j ∈ Ico (k + 1) x.length,
            nth (burgRun x k).ef j * star (nth (burgRun x k).eb (j - 1)))
          / ∑ j ∈ Ico (k + 1) x.length,
              (nth (burgRun x k).ef j * star (nth (burgRun x k).ef j)
                + nth (burgRun x k).eb (j - 1) * star (nth (burgRun x k).eb (j - 1))) :=
  bK_eq_stageK x hN k hk hprev

/-- **error update**: for live indices `k < j < N` the arrays of the next state are the lattice
update `ef'[j] = ef[j] + k_k·eb[j-1]`, `eb'[j] = eb[j-1] + conj(k_k)·ef[j]` — i.e. the summand of the
stage energy in `burg_k_minimises` at `κ = k_k` is the energy of the stored errors. -/
theorem burg_error_update (x : List K) (k j : ℕ) (hkj : k < j) (hj : j < x.length) :
    nth (burgRun x (k + 1)).ef j
      = nth (burgRun x k).ef j + (burgK (burgRun x k) x.length k).1 * nth (burgRun x k).eb (j - 1) ∧
    nth (burgRun x (k + 1)).eb j
      = nth (burgRun x k).eb (j - 1)
          + star (burgK (burgRun x k) x.length k).1 * nth (burgRun x k).ef j :=
  ⟨nth_ef_succ x k j hkj hj, nth_eb_succ x k j hkj hj⟩

/-- **each `k_k` minimises the stage energy** (exact excess): for every `κ`, the summed forward and
backward prediction-error energy of stage `k` with coefficient `κ`, minus the same energy with the
returned `k_k`, equals `den_k · |κ - k_k|²`.  Hypotheses: those of the invariant for the stages
`0..k` (so `den_k` is the recursive denominator of the code, and it is non-zero). -/
theorem burg_k_minimises (x : List K) (k : ℕ) (κ : K) (hN : (x.length : K) ≠ 0)
    (hk : k + 1 ≤ x.length) (hD : ∀ i, i ≤ k → (burgK (burgRun x i) x.length i).2 ≠ 0) :
    (∑ j ∈ Ico (k + 1) x.length,
        ((nth (burgRun x k).ef j + κ * nth (burgRun x k).eb (j - 1))
            * star (nth (burgRun x k).ef j + κ * nth (burgRun x k).eb (j - 1))
          + (nth (burgRun x k).eb (j - 1) + star κ * nth (burgRun x k).ef j)
            * star (nth (burgRun x k).eb (j - 1) + star κ * nth (burgRun x k).ef j)))
      - (∑ j ∈ Ico (k + 1) x.length,
        ((nth (burgRun x k).ef j
              + (burgK (burgRun x k) x.length k).1 * nth (burgRun x k).eb (j - 1))
            * star (nth (burgRun x k).ef j
              + (burgK (burgRun x k) x.length k).1 * nth (burgRun x k).eb (j - 1))
          + (nth (burgRun x k).eb (j - 1)
              + star (burgK (burgRun x k) x.length k).1 * nth (burgRun x k).ef j)
            * star (nth (burgRun x k).eb (j - 1)
              + star (burgK (burgRun x k) x.length k).1 * nth (burgRun x k).ef j)))
      = (burgK (burgRun x k) x.length k).2
          * ((κ - (burgK (burgRun x k) x.length k).1)
              * star (κ - (burgK (burgRun x k) x.length k).1)) := by
  have hprev : ∀ i, i < k → bD x i ≠ 0 := fun i hi => hD i (by omega)
  have hden := bD_eq_liveDen x hN k hk hprev
  have hK := bK_eq_stageK x hN k hk hprev
  have hne : liveDen x k ≠ 0 := hden ▸ hD k (le_refl k)
  have := stage_k_minimises (Ico (k + 1) x.length) (nth (burgRun x k).ef)
    (fun j => nth (burgRun x k).eb (j - 1)) κ hne
  rw [← hK] at this
  show _ = bD x k * _
  rw [hden]
  exact this

/-- **residual energy / Marple's recursion**: the energy left after the optimal stage is
`(1 - |k_k|²)·den_k` (same hypotheses). -/
theorem burg_energy_after (x : List K) (k : ℕ) (hN : (x.length : K) ≠ 0)
    (hk : k + 1 ≤ x.length) (hD : ∀ i, i ≤ k → (burgK (burgRun x i) x.length i).2 ≠ 0) :
    ∑ j ∈ Ico (k + 1) x.length,
        (nth (burgRun x (k + 1)).ef j * star (nth (burgRun x (k + 1)).ef j)
          + nth (burgRun x (k + 1)).eb j * star (nth (burgRun x (k + 1)).eb j))
      = (1 - (burgK (burgRun x k) x.length k).1 * star (burgK (burgRun x k) x.length k).1)
          * (burgK (burgRun x k) x.length k).2 := by
  have hprev : ∀ i, i < k → bD x i ≠ 0 := fun i hi => hD i (by omega)
  have hden := bD_eq_liveDen x hN k hk hprev
  have hK := bK_eq_stageK x hN k hk hprev
  have hne : liveDen x k ≠ 0 := hden ▸ hD k (le_refl k)
  have := stage_energy_after (Ico (k + 1) x.length) (nth (burgRun x k).ef)
    (fun j => nth (burgRun x k).eb (j - 1)) hne
  rw [← hK] at this
  rw [← liveEnergy_bK]
  show _ = _ * bD x k
  rw [hden]
  exact this

/-! ### order: `|k_k| ≤ 1`, real optimality, monotone error (over `ℝ`, `ℂ`, any `RCLike`) -/
section RC
variable {𝕜 : Type} [RCLike 𝕜]

/-- over `ℝ`/`ℂ`, non-degeneracy `den_i ≠ 0` (stages `0..k`) is the same as `den_k > 0`: the
denominators are real and positive. -/
theorem burg_den_pos (x : List 𝕜) (k : ℕ) (hk : k + 1 ≤ x.length)
    (hD : ∀ i, i ≤ k → (burgK (burgRun x i) x.length i).2 ≠ 0) :
    0 < RCLike.re (burgK (burgRun x k) x.length k).2 ∧
    RCLike.im (burgK (burgRun x k) x.length k).2 = 0 := by
  have hN := natCast_length_ne_zero x (by omega)
  have hden := bD_eq_liveDen x hN k hk (fun i hi => hD i (by omega))
  have hne : liveDen x k ≠ 0 := hden ▸ hD k (le_refl k)
  show 0 < RCLike.re (bD x k) ∧ RCLike.im (bD x k) = 0
  rw [hden]
  refine ⟨stageDen_re_pos _ _ _ hne, ?_⟩
  unfold liveDen
  rw [stageDen_ofReal, RCLike.ofReal_im]

/-- **`|k_k| ≤ 1`**: with non-degenerate stages `0..k`, the reflection coefficient of stage `k` has
modulus at most one. -/
theorem burg_k_le_one (x : List 𝕜) (k : ℕ) (hk : k + 1 ≤ x.length)
    (hD : ∀ i, i ≤ k → (burgK (burgRun x i) x.length i).2 ≠ 0) :
    ‖(burgK (burgRun x k) x.length k).1‖ ≤ 1 :=
  bK_norm_le_one x k hk hD

/-- all returned reflection coefficients of an order-`p` model (`p ≤ N`) have modulus `≤ 1` -/
theorem burg_ref_le_one (x : List 𝕜) (p : ℕ) (hp : p ≤ x.length)
    (hD : ∀ i, i < p → (burgK (burgRun x i) x.length i).2 ≠ 0) :
    ∀ i, i < p → ‖nth (burgRun x p).ref i‖ ≤ 1 := by
  intro i hi
  rw [nth_burgRun_ref x p i hi]
  exact bK_norm_le_one x i (by omega) (fun j hj => hD j (by omega))

/-- non-vacuity of the `RCLike` theorems: `x = [1, 2, 1]` over `ℝ`, `den_0 = 10`, `den_1 = 18/25`. -/
example : 1 + 1 ≤ ([1, 2, 1] : List ℝ).length ∧
    ∀ i, i ≤ 1 → (burgK (burgRun ([1, 2, 1] : List ℝ) i) ([1, 2, 1] : List ℝ).length i).2 ≠ 0 := by
  refine ⟨by simp, ?_⟩
  intro i hi
  have : i = 0 ∨ i = 1 := by omega
  rcases this with rfl | rfl
  · simp [burgRun, burgInit, burgK, nth, abs2, Finset.sum_range_succ]
    norm_num
  · simp [burgRun, burgInit, burgK, burgStep, nth, abs2, vec, List.range_succ, Finset.sum_range_succ]
    norm_num

/-- **real optimality**: the (real) stage energy with any `κ` is at least the energy with the
returned `k_k`. -/
theorem burg_k_minimises_real (x : List 𝕜) (k : ℕ) (κ : 𝕜) (hk : k + 1 ≤ x.length)
    (hD : ∀ i, i ≤ k → (burgK (burgRun x i) x.length i).2 ≠ 0) :
    ∑ j ∈ Ico (k + 1) x.length,
        (‖nth (burgRun x k).ef j
              + (burgK (burgRun x k) x.length k).1 * nth (burgRun x k).eb (j - 1)‖ ^ 2
          + ‖nth (burgRun x k).eb (j - 1)
              + star (burgK (burgRun x k) x.length k).1 * nth (burgRun x k).ef j‖ ^ 2)
      ≤ ∑ j ∈ Ico (k + 1) x.length,
        (‖nth (burgRun x k).ef j + κ * nth (burgRun x k).eb (j - 1)‖ ^ 2
          + ‖nth (burgRun x k).eb (j - 1) + star κ * nth (burgRun x k).ef j‖ ^ 2) := by
  have hN := natCast_length_ne_zero x (by omega)
  have hprev : ∀ i, i < k → bD x i ≠ 0 := fun i hi => hD i (by omega)
  have hden := bD_eq_liveDen x hN k hk hprev
  have hK := bK_eq_stageK x hN k hk hprev
  have hne : liveDen x k ≠ 0 := hden ▸ hD k (le_refl k)
  have := stageEnergy_re_ge (Ico (k + 1) x.length) (nth (burgRun x k).ef)
    (fun j => nth (burgRun x k).eb (j - 1)) κ hne
  rw [← hK, stageEnergy_ofReal, stageEnergy_ofReal, RCLike.ofReal_re, RCLike.ofReal_re] at this
  exact this

/-- **the error power does not increase with the order** and stays non-negative:
`0 ≤ rho_{k+1} ≤ rho_k` (real parts; `rho` is self-adjoint, second part), with
`rho_{k+1} = (1 - |k_k|²) rho_k`. -/
theorem burg_rho_antitone (x : List 𝕜) (k : ℕ) (hk : k + 1 ≤ x.length)
    (hD : ∀ i, i ≤ k → (burgK (burgRun x i) x.length i).2 ≠ 0) :
    0 ≤ RCLike.re (burgRun x (k + 1)).rho ∧
    RCLike.re (burgRun x (k + 1)).rho ≤ RCLike.re (burgRun x k).rho ∧
    RCLike.re (burgRun x (k + 1)).rho
      = (1 - ‖(burgK (burgRun x k) x.length k).1‖ ^ 2) * RCLike.re (burgRun x k).rho := by
  exact ⟨re_rho_nonneg x (k + 1) hk (fun i hi => hD i (by omega)), re_rho_succ_le x k hk hD,
    re_rho_succ x k⟩

/-- `rho` is real at every order (no hypothesis) -/
theorem burg_rho_real (x : List 𝕜) (k : ℕ) : RCLike.im (burgRun x k).rho = 0 := by
  have h := burgRun_rho_star x k
  rw [RCLike.star_def, RCLike.conj_eq_iff_im] at h
  exact h

/-- **C13, assembled**: if `arburg x p` succeeds (with or without an order-selection criterion) and
the stages `0..p-1` are non-degenerate, the result is the Burg model of some order `q ≤ p` (`q = p`
without criterion): it has `q` reflection coefficients of modulus `≤ 1`, its AR vector is their
step-up polynomial, its error power is `mean|x|² ∏ (1 - |k_i|²)`, real, non-negative and not larger
than the error power of any lower order `m ≤ q`, whose reflection coefficients are a prefix of the
returned ones. -/
theorem burg_main [ReOrd 𝕜] (x : List 𝕜) (p : ℕ) (useCrit : Bool) (stop : ℕ → 𝕜 → Bool)
    (s : BurgState 𝕜) (h : arburg x p useCrit stop = .ok s)
    (hD : ∀ i, i < p → (burgK (burgRun x i) x.length i).2 ≠ 0) :
    ∃ q, q ≤ p ∧ (useCrit = false → q = p) ∧ s = burgRun x q ∧
      s.ref.length = q ∧ (∀ i, i < q → ‖nth s.ref i‖ ≤ 1) ∧
      (∀ r0, s.a = (rc2poly s.ref r0).1) ∧
      s.rho = (∑ j ∈ range x.length, nth x j * star (nth x j)) / (x.length : 𝕜)
          * ∏ i ∈ range q, (1 - nth s.ref i * star (nth s.ref i)) ∧
      RCLike.im s.rho = 0 ∧ 0 ≤ RCLike.re s.rho ∧
      ∀ m, m ≤ q → RCLike.re s.rho ≤ RCLike.re (burgRun x m).rho ∧
        (burgRun x m).ref = s.ref.take m := by
  obtain ⟨_, hp, _, hs⟩ := (arburg_ok_iff x p useCrit stop s).mp h
  obtain ⟨q, hqdef⟩ : ∃ q, q = (if useCrit = true then burgOrder stop x p else p) := ⟨_, rfl⟩
  rw [← hqdef] at hs
  have hq : q ≤ p := by
    rw [hqdef]
    cases useCrit
    · simp
    · simpa using (burgOrder_spec stop x p).1
  have hcrit : useCrit = false → q = p := by
    intro hc; rw [hqdef]; simp [hc]
  subst hs
  have hDq : ∀ i, i < q → bD x i ≠ 0 := fun i hi => hD i (by omega)
  refine ⟨q, hq, hcrit, rfl, burgRun_ref_length x q, burg_ref_le_one x q (by omega) hDq,
    burg_ar_eq_stepup x q, ?_, burg_rho_real x q, re_rho_nonneg x q (by omega) hDq, ?_⟩
  · rw [(burg_rho_product x q).2.1, burgInit_rho]
  · intro m hm
    exact ⟨re_rho_antitone x m q hm (by omega) hDq, burgRun_ref_take x m q hm⟩

end RC
/-! ### stability for every order (Schur–Cohn) -/
section Stability
variable {𝕜 : Type} [RCLike 𝕜]

/-- **Burg is stable, every order**: under the hypotheses of `burg_ref_le_one` (order `p ≤ N`,
non-degenerate stages `den_i ≠ 0`, `i < p`) every root `z` of the Burg prediction polynomial
`A(z) = z^p + a_1 z^{p-1} + … + a_p` (`[1, a_1..a_p]` handed to `numpy.roots`, i.e.
`SchurL.polyA (burgRun x p).a z`) satisfies `|z| ≤ 1`; and if in addition every returned reflection
coefficient has modulus `< 1`, then `|z| < 1`. -/
theorem burg_stable (x : List 𝕜) (p : ℕ) (hp : p ≤ x.length)
    (hD : ∀ i, i < p → (burgK (burgRun x i) x.length i).2 ≠ 0) (z : 𝕜)
    (hz : z ^ p + ∑ j ∈ range p, nth (burgRun x p).a j * z ^ (p - 1 - j) = 0) :
    ‖z‖ ≤ 1 ∧ ((∀ i, i < p → ‖nth (burgRun x p).ref i‖ < 1) → ‖z‖ < 1) := by
  have hz' : z ^ p + ∑ j ∈ range p, nth (rc2poly (burgRun x p).ref 1).1 j * z ^ (p - 1 - j) = 0 := by
    rw [← burgRun_a_eq_rc2poly x p 1]
    exact hz
  exact ⟨SchurL.rc2poly_root_le_one _ 1 p (burgRun_ref_length x p) (burg_ref_le_one x p hp hD) z hz',
    fun hk => SchurL.rc2poly_root_lt_one _ 1 p (burgRun_ref_length x p) hk z hz'⟩

/-- the strict statement needs no non-degeneracy hypothesis: whenever all returned reflection
coefficients have modulus `< 1`, the Burg polynomial has no zero on or outside the unit circle
(helper definition `SchurL.polyA a z = z^m + Σ_{j<m} a_j z^{m-1-j}`) -/
theorem burg_stable_polyA (x : List 𝕜) (p : ℕ) (hk : ∀ i, i < p → ‖nth (burgRun x p).ref i‖ < 1)
    (z : 𝕜) (hz : 1 ≤ ‖z‖) : SchurL.polyA (burgRun x p).a z ≠ 0 := by
  rw [burgRun_a_eq_rc2poly x p 1]
  exact SchurL.stable_of_refl_lt_one _ 1
    (SchurL.forall_mem_of_forall_nth _ p (burgRun_ref_length x p) hk) z hz

/-- closed-disc statement with the helper definition: under the hypotheses of `burg_ref_le_one` the
Burg polynomial has no zero strictly outside the unit circle -/
theorem burg_closed_disc_polyA (x : List 𝕜) (p : ℕ) (hp : p ≤ x.length)
    (hD : ∀ i, i < p → (burgK (burgRun x i) x.length i).2 ≠ 0) (z : 𝕜) (hz : 1 < ‖z‖) :
    SchurL.polyA (burgRun x p).a z ≠ 0 := by
  rw [burgRun_a_eq_rc2poly x p 1]
  exact SchurL.ne_zero_of_refl_le_one _ 1
    (SchurL.forall_mem_of_forall_nth _ p (burgRun_ref_length x p) (burg_ref_le_one x p hp hD)) z hz

/-- **no pole on the frequency grid** when all `|k_i| < 1`: `1 + a_1 w + … + a_p w^p ≠ 0` for
`|w| ≤ 1` (the polynomial evaluated by the PSD code) -/
theorem burg_no_unit_zeros (x : List 𝕜) (p : ℕ) (hk : ∀ i, i < p → ‖nth (burgRun x p).ref i‖ < 1)
    (w : 𝕜) (hw : ‖w‖ ≤ 1) : 1 + ∑ j ∈ range p, nth (burgRun x p).a j * w ^ (j + 1) ≠ 0 := by
  rw [burgRun_a_eq_rc2poly x p 1]
  exact SchurL.rc2poly_rev_ne_zero _ 1 p (burgRun_ref_length x p) hk w hw

/-- non-vacuity of `burg_stable`: `x = [1, 2, 1]` over `ℝ`, order 2; `den_0 = 10`, `den_1 = 18/25`
are non-zero (the reflection coefficients are `-4/5`, `-1`: the closed disc cannot be improved here) -/
example : 2 ≤ ([1, 2, 1] : List ℝ).length ∧
    ∀ i, i < 2 → (burgK (burgRun ([1, 2, 1] : List ℝ) i) ([1, 2, 1] : List ℝ).length i).2 ≠ 0 := by
  refine ⟨by simp, ?_⟩
  intro i hi
  have : i = 0 ∨ i = 1 := by omega
  rcases this with rfl | rfl
  · simp [burgRun, burgInit, burgK, nth, abs2, Finset.sum_range_succ]
    norm_num
  · simp [burgRun, burgInit, burgK, burgStep, nth, abs2, vec, List.range_succ, Finset.sum_range_succ]
    norm_num

/-- non-vacuity of the strict clause: order 1 of the same data has `k_0 = -4/5` -/
example : ∀ i, i < 1 → ‖nth (burgRun ([1, 2, 1] : List ℝ) 1).ref i‖ < 1 := by
  intro i hi
  have : i = 0 := by omega
  subst this
  have h : nth (burgRun ([1, 2, 1] : List ℝ) 1).ref 0 = -4 / 5 := by
    simp [burgRun, burgInit, burgK, burgStep, nth, abs2, Finset.sum_range_succ]
    norm_num
  rw [h, Real.norm_eq_abs, abs_lt]
  constructor <;> norm_num

end Stability

/-! ### instantiation at the executed scalar type `CRat`

`Lemmas/CRatField.lean` makes the Gaussian rationals of the executable model a `Field` / `StarRing` whose
operations ARE the model's hand-written instances.  The theorems below are the generic theorems of this
file specialised to `K := CRat` (by plain application — no rewriting): their statements elaborate to the
model functions applied to the model's own instances (`CRat.instAdd`, `CRat.instMul`, `CRat.instDiv`, …,
`CRat.instConj`), i.e. to the code that the differential test executes; `conj` is the model's conjugation.
The `example … := rfl` lines check that the `Field`-path elaboration used by the generic theorems,
instantiated at `CRat`, is that very function. -/
section CRatInstantiation

/-- **`burg_rho_product` for the executed model** -/
theorem burg_rho_product_CRat (x : List CRat) (k : ℕ) :
    (burgRun x k).rho
        = (burgInit x).rho * ((burgRun x k).ref.map (fun κ => 1 - κ * conj κ)).prod ∧
    (burgRun x k).rho
        = (burgInit x).rho * ∏ i ∈ range k,
            (1 - nth (burgRun x k).ref i * conj (nth (burgRun x k).ref i)) ∧
    (burgInit x).rho = (∑ j ∈ range x.length, nth x j * conj (nth x j)) / (x.length : CRat) ∧
    (burgRun x k).rho = (rc2poly (burgRun x k).ref (burgInit x).rho).2 :=
  burg_rho_product x k

example : (fun (K : Type) [Field K] [StarRing K] => (burgRun : List K → _)) CRat
    = @burgRun CRat CRat.instAdd CRat.instSub CRat.instMul CRat.instDiv CRat.instNeg
        CRat.instOfNatOfNatNat CRat.instOfNatOfNatNat_1 CRat.instNatCast CRat.instConj := rfl
example : @burgRun CRat CRat.instAdd CRat.instSub CRat.instMul CRat.instDiv CRat.instNeg
    CRat.instOfNatOfNatNat CRat.instOfNatOfNatNat_1 CRat.instNatCast CRat.instConj = burgRun := rfl

end CRatInstantiation

/-! ## the order-selection criteria of the model ARE the library's source

`SpecVerif.Src.AIC … MDL` (`Generated/CriteriaSrc.lean`) are translated on every run from the abstract syntax tree of
`spectrum/criteria.py` (`harness/srcgen.py`).  The hand-written `critValue` — which the driver executes, which `arburg`'s stopping
rule uses (`critStops`) and which the scaling theorems of C03 are about — is equal to that translation for every sample size,
variance and order: for these six functions the tie between model and code is this theorem, re-checked by the kernel against
what the source says now. -/

section SourceTie
set_option linter.unusedSimpArgs false
set_option linter.unusedTactic false
set_option linter.unreachableTactic false
open SpecVerif.Src

theorem critValue_eq_source (N : ℕ) (ρ : ℝ) (k : ℕ) :
    critValue .AIC N ρ k = Src.AIC (N : ℝ) ρ (k : ℝ) ∧
    critValue .AICc N ρ k = Src.AICc (N : ℝ) ρ (k : ℝ) ∧
    critValue .KIC N ρ k = Src.KIC (N : ℝ) ρ (k : ℝ) ∧
    critValue .AKICc N ρ k = Src.AKICc (N : ℝ) ρ (k : ℝ) ∧
    critValue .FPE N ρ k = Src.FPE (N : ℝ) ρ (k : ℝ) ∧
    critValue .MDL N ρ k = Src.MDL (N : ℝ) ρ (k : ℝ) := by
  -- `rfl` up to unfolding when the source is written as the model is; `ring` absorbs harmless re-arrangements of a formula
  refine ⟨?_, ?_, ?_, ?_, ?_, ?_⟩ <;>
    first
      | (simp only [critValue, Src.AIC, Src.AICc, Src.KIC, Src.AKICc, Src.FPE, Src.MDL, Nat.cast_ofNat, Nat.cast_one]; done)
      | (simp only [critValue, Src.AIC, Src.AICc, Src.KIC, Src.AKICc, Src.FPE, Src.MDL, Nat.cast_ofNat, Nat.cast_one]; ring)

/-- hence the stopping test of `arburg` is the comparison of the library's own two criterion values -/
theorem critStops_eq_source (N : ℕ) (ρ₀ ρ₁ : ℝ) (k : ℕ) :
    critStops .AIC N ρ₀ ρ₁ k = decide (Src.AIC (N : ℝ) ρ₀ ((k - 1 : ℕ) : ℝ) < Src.AIC (N : ℝ) ρ₁ (k : ℝ)) ∧
    critStops .MDL N ρ₀ ρ₁ k = decide (Src.MDL (N : ℝ) ρ₀ ((k - 1 : ℕ) : ℝ) < Src.MDL (N : ℝ) ρ₁ (k : ℝ)) ∧
    critStops .FPE N ρ₀ ρ₁ k = decide (Src.FPE (N : ℝ) ρ₀ ((k - 1 : ℕ) : ℝ) < Src.FPE (N : ℝ) ρ₁ (k : ℝ)) := by
  have h := critValue_eq_source N ρ₀ (k - 1)
  have h' := critValue_eq_source N ρ₁ k
  refine ⟨?_, ?_, ?_⟩
  · simp only [critStops, h.1, h'.1]; rfl
  · simp only [critStops, h.2.2.2.2.2, h'.2.2.2.2.2]; rfl
  · simp only [critStops, h.2.2.2.2.1, h'.2.2.2.2.1]; rfl

/-- the translated source is not a degenerate term: AIC(N = 10, ρ = 1, k = 2) = 6 -/
example : Src.AIC (10 : ℝ) 1 2 = 6 := by
  simp only [Src.AIC, RealFn.log, Real.log_one]; norm_num

end SourceTie

end SpecVerif.C13
