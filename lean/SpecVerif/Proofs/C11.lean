import SpecVerif.Proofs.Lemmas.LinPred
import SpecVerif.Proofs.Lemmas.LpcLsf
import SpecVerif.Proofs.Lemmas.LsfCircle
import SpecVerif.Proofs.Lemmas.LsfInterlace
import SpecVerif.Proofs.Lemmas.LsfRoundtrip
import Mathlib.Data.List.Sort
import Mathlib.Algebra.Star.Rat
import Mathlib.Algebra.BigOperators.Group.List.Basic
/-
  C11 — the conversions between autocorrelation, prediction polynomial (+ final error) and reflection
  coefficients (+ zero lag) are mutually inverse on their domain and commute; reflection coefficients
  ↔ log-area ratios and ↔ inverse-sine parameters are inverse bijections.

  Property theorems only (helper lemmas live in `Proofs/Lemmas/LinPred.lean`).  `K` is any field with
  an involution (`ℝ` with trivial `star`, `ℂ` with conjugation).  Coefficient lists never carry the
  leading 1 of the prediction polynomial.  The domain condition "reflection coefficient of modulus
  `≠ 1`" is stated as `1 - k * star k ≠ 0` (implied by `|k| < 1`).

  The clause "polynomial ↔ line spectral frequencies are inverse" is PROVED in its algebraic form in
  the last section (helper lemmas in `Proofs/Lemmas/LpcLsf.lean`, namespace `SpecVerif.LpcL`):
  `polyMul` (`numpy.convolve`) is multiplicative under evaluation and `polyFromRoots` (`numpy.poly`) is
  the product of the linear factors; the two polynomials `P1 = a1 - reverse a1`, `Q1 = a1 + reverse a1`
  of `poly2lsf` are antisymmetric / symmetric, average to `a1 = a ++ [0]`, and have the fixed roots
  `±1` that `poly2lsf` deconvolves away and `lsf2poly` multiplies back; `lsfRecombine` (the synthesis
  step of `lsf2poly`) fed with any root lists of the deflated polynomials returns `a`
  (`lsf_roundtrip_algebra`); that the deflated polynomials exist, i.e. `deconvolve` leaves zero
  remainder, is proved by synthetic division (`lsf_deflation_exists`).  The round trip is therefore
  relative only to the contract of `numpy.roots` / `numpy.poly` (a monic polynomial is the product of
  its linear factors).  Polynomials are coefficient lists, highest power first, *with* the leading 1 in
  that section (`LpcL.polyEval p z = Σ_i p_i z^{len p - 1 - i}`), over any field `F` (no involution
  needed).

  The analytic clause "`poly2lsf` returns line spectral frequencies that are real angles in `(0, π)`,
  strictly increasing, for a minimum-phase prediction polynomial" is PROVED in the section after it
  (helper lemmas in `Proofs/Lemmas/LsfCircle.lean`, namespace `SpecVerif.LsfCircleL`), over `ℝ`/`ℂ`
  (`RCLike`), for a polynomial `[1, c_1..c_p]` with real (self-conjugate) coefficients all of whose
  reflection coefficients `poly2rc c` have modulus `< 1`:
  * `lsfSplit_eval`: `P1(z) = z·A(z) − R(z)`, `Q1(z) = z·A(z) + R(z)`, `R` the reversed polynomial;
  * `schur_cohn_strict`: `|B| < |A|` outside, `|A| < |B|` inside the unit circle (step-up recursion,
    `|A'|² − |B'|² = (1−|k|²)(|z|²|A|² − |B|²)`);
  * `lsf_roots_on_unit_circle` (`_rc`): every zero of `P1` and of `Q1` has modulus 1 (`|zA| > |B|`
    outside, `|zA| < |B|` inside, `z = 0` included);
  * `lsf_no_common_root`, `lsf_roots_conj_closed`;
  * `lsf_roots_simple`: no zero is double (Christoffel–Darboux kernel of the recursion:
    `B(z)conj B(w) − z conj(w) A(z)conj A(w) = (1 − z conj w)·S(z,w)` with `S(w,w) ≥ |A(w)|² > 0`);
  * `lsf_computed_roots_unit_distinct`, `lsf_angles`: relative to the contract of `numpy.roots` (the root
    lists multiply back to the deflated polynomials) the `2p` computed roots are unimodular, not `±1`,
    pairwise distinct, closed under conjugation; over `ℂ` each is `e^{iθ}` with `θ = angle(r)`, exactly `p`
    angles are positive, they lie in `(0, π)`, and sorted they are strictly increasing.
  The ALTERNATION (interlacing theorem of the line spectral pairs) is PROVED in the last section (helper
  lemmas in `Proofs/Lemmas/LsfInterlace.lean`, namespace `SpecVerif.LsfInterlaceL`), over `ℂ`:
  * `lsf_zeros_interlace`: between two zeros `e^{it1}`, `e^{it2}` (`t1 < t2`) of `P1` there is a zero `e^{is}`,
    `t1 < s < t2`, of `Q1`, and vice versa (fixed zeros `±1` included) — the kernel identity
    `P1(z)conj Q1(w) + Q1(z)conj P1(w) = −2(1 − z conj w)S(z,w)` gives `d/dt [P1/Q1](e^{it}) = 2i·S(w,w)/|Q1(w)|²`
    (monotone phase of the all-pass function `zA/B`), then Rolle's theorem (Sturm separation);
  * `lsf_computed_roots_interlace`: the same for the computed root lists, with the consequences of the fixed
    zeros (the smallest frequency belongs to `Q`, the largest to `P` for even and to `Q` for odd order);
  * `lsf_sorted_alternate`: in the sorted list of the `p` line spectral frequencies the even positions
    `0, 2, …` are zeros of `Q` and the odd positions zeros of `P` — the assignment `rQ = z[0::2]`,
    `rP = z[1::2]` made by `lsf2poly`;
  * `lsf2poly_poly2lsf`: hence `lsf2poly` applied to the sorted positive angles of the computed roots returns
    the polynomial (round trip through the frequencies themselves, relative to the contract of `numpy.roots`).
  NOT modelled: the numerical root finder itself and `poly2lsf`'s selection of one root per conjugate pair
  by position (`rP[1::2]`), which relies on the ordering of `numpy.roots`' output.
-/
namespace SpecVerif.C11
open SpecVerif

variable {K : Type} [Field K] [StarRing K]

/-! ### step-up and step-down -/

/-- step-up raises the order by one -/
theorem levup_length (a : List K) (k : K) : (levup a k).length = a.length + 1 :=
  levup_length' a k

/-- step-down lowers the order by one -/
theorem levdown_length (b : List K) : (levdown b).length = b.length - 1 :=
  levdown_length' b

/-- the last coefficient of the stepped-up polynomial is the reflection coefficient -/
theorem levup_last (a : List K) (k : K) :
    nth (levup a k) ((levup a k).length - 1) = k := by
  rw [levup_length' a k, Nat.add_sub_cancel, nth_levup_last]

/-- step-down undoes step-up (reflection coefficient off the unit circle) -/
theorem levdown_levup (a : List K) (k : K) (hk : 1 - k * star k ≠ 0) :
    levdown (levup a k) = a :=
  levdown_levup' a k hk

/-- step-up with the last coefficient undoes step-down -/
theorem levup_levdown (b : List K) (k : K) (hb : b ≠ []) (hlast : nth b (b.length - 1) = k)
    (hk : 1 - k * star k ≠ 0) :
    levup (levdown b) k = b := by
  subst hlast
  exact levup_levdown' b hb hk

example : (1 : ℚ) - (1 / 3) * star (1 / 3) ≠ 0 := by norm_num

/-! ### reflection coefficients ↔ polynomial -/

/-- `rc2poly` returns a polynomial of the same order as the number of reflection coefficients -/
theorem rc2poly_length (kr : List K) (r0 : K) : (rc2poly kr r0).1.length = kr.length :=
  rc2poly_length' kr r0

/-- final prediction error of `rc2poly`: `r0 · ∏ (1 - |k_i|²)` -/
theorem rc2poly_error (kr : List K) (r0 : K) :
    (rc2poly kr r0).2 = r0 * (kr.map (fun k => 1 - star k * k)).prod :=
  rc2poly_error' kr r0

/-- `poly2rc ∘ rc2poly = id` when every reflection coefficient is off the unit circle -/
theorem poly2rc_rc2poly (kr : List K) (r0 : K) (hk : ∀ k ∈ kr, 1 - k * star k ≠ 0) :
    poly2rc (rc2poly kr r0).1 = kr := by
  induction kr using List.reverseRecOn with
  | nil => rfl
  | append_singleton kr k ih =>
    rw [rc2poly_append_singleton]
    rw [poly2rc_levup _ _ (hk k (by simp))]
    rw [ih (fun k' hk' => hk k' (by simp [hk']))]

/-- `rc2poly ∘ poly2rc = id` on polynomials all of whose step-down reflection coefficients are off
the unit circle -/
theorem rc2poly_poly2rc (a : List K) (r0 : K) (hk : ∀ k ∈ poly2rc a, 1 - k * star k ≠ 0) :
    (rc2poly (poly2rc a) r0).1 = a :=
  rc2poly_poly2rc' a r0 hk

/-- non-vacuity: two real reflection coefficients `1/2, 1/3`, `r0 = 2`: the polynomial is
`[2/3, 1/3]`, the final error `2·(3/4)·(8/9) = 4/3`, and `poly2rc` recovers the coefficients. -/
example : rc2poly [(1 / 2 : ℚ), 1 / 3] 2 = ([2 / 3, 1 / 3], 4 / 3) ∧
    poly2rc [(2 / 3 : ℚ), 1 / 3] = [1 / 2, 1 / 3] := by
  norm_num [rc2poly, poly2rc, levup, levdown, stepDowns, vec, nth, abs2, conj, List.range,
    List.range.loop]

/-- the number of reflection coefficients read off a polynomial is its order -/
theorem poly2rc_length (a : List K) : (poly2rc a).length = a.length :=
  SpecVerif.poly2rc_length a

/-! ### the commuting square  ac → poly  =  ac → rc → poly -/

/-- Levinson's coefficient update *is* step-up: after `p` stages the polynomial and the prediction
error are exactly `rc2poly` of the reflection coefficients found so far — for every input. -/
theorem ac2poly_eq_rc2poly_ac2rc (r0 : K) (T : List K) (p : ℕ) :
    (levRun r0 T p).A = (rc2poly (levRun r0 T p).ref r0).1 ∧
    (levRun r0 T p).P = (rc2poly (levRun r0 T p).ref r0).2 := by
  induction p with
  | zero => exact ⟨rfl, rfl⟩
  | succ p ih =>
    rw [levRun_succ_lp]
    unfold levStep
    simp only [rc2poly_append_singleton]
    refine ⟨by rw [← ih.1], ?_⟩
    rw [← ih.2, abs2_eq]
    ring

/-- Levinson returns `p` coefficients and `p` reflection coefficients after `p` stages -/
theorem levRun_length (r0 : K) (T : List K) (p : ℕ) :
    (levRun r0 T p).A.length = p ∧ (levRun r0 T p).ref.length = p := by
  induction p with
  | zero => exact ⟨rfl, rfl⟩
  | succ p ih =>
    rw [levRun_succ_lp]
    unfold levStep
    simp only [levup_length', List.length_append, List.length_singleton, ih.1, ih.2]
    exact ⟨trivial, trivial⟩

/-- ac → rc → poly → rc is ac → rc: on the domain, `poly2rc` of Levinson's polynomial returns
Levinson's reflection coefficients. -/
theorem poly2rc_ac2poly (r0 : K) (T : List K) (p : ℕ)
    (hk : ∀ k ∈ (levRun r0 T p).ref, 1 - k * star k ≠ 0) :
    poly2rc (levRun r0 T p).A = (levRun r0 T p).ref := by
  rw [(ac2poly_eq_rc2poly_ac2rc r0 T p).1]
  exact poly2rc_rc2poly _ r0 hk


/-! ### autocorrelation ↔ (reflection coefficients, zero lag) and ↔ (polynomial, final error) -/

/-- `rc2ac` returns `p + 1` lags for `p` reflection coefficients -/
theorem rc2ac_length (kr : List K) (r0 : K) (hk : ∀ k ∈ kr, 1 - k * star k ≠ 0) :
    (rc2ac kr r0).length = kr.length + 1 :=
  rc2ac_length' kr r0 hk

/-- the zero lag of `rc2ac kr r0` is `r0` (at least one reflection coefficient) -/
theorem rc2ac_zero_lag (kr : List K) (r0 : K) (hne : kr ≠ [])
    (hk : ∀ k ∈ kr, 1 - k * star k ≠ 0) : nth (rc2ac kr r0) 0 = r0 :=
  nth_rc2ac_zero kr r0 (List.length_pos_iff.mpr hne) hk

/-- the lags of `rc2ac` obey the inverse Levinson recursion
`R_{m+1} = -Σ_{i<m} a_m[i] R_{m-i} - k_{m+1} E_m` with `(a_m, E_m) = rc2poly (k_1..k_m) r0` -/
theorem rc2ac_recursion (kr : List K) (r0 : K) (hk : ∀ k ∈ kr, 1 - k * star k ≠ 0)
    (m : ℕ) (hm : m < kr.length) :
    nth (rc2ac kr r0) (m + 1)
      = -(∑ i ∈ Finset.range m, nth (rc2poly (kr.take m) r0).1 i * nth (rc2ac kr r0) (m - i))
        - nth kr m * (rc2poly (kr.take m) r0).2 :=
  nth_rc2ac_succ kr r0 hk m hm

/-- **ac2rc ∘ rc2ac = id** (and ac2poly ∘ rc2ac = rc2poly): Levinson run on the lags produced by
`rc2ac kr r0` (zero lag `r0 ≠ 0`, reflection coefficients off the unit circle) returns `kr`, and the
polynomial and error of `rc2poly kr r0`. -/
theorem ac2rc_rc2ac (kr : List K) (r0 : K) (hr0 : r0 ≠ 0) (hk : ∀ k ∈ kr, 1 - k * star k ≠ 0) :
    (levRun r0 (rc2ac kr r0).tail kr.length).ref = kr ∧
    (levRun r0 (rc2ac kr r0).tail kr.length).A = (rc2poly kr r0).1 ∧
    (levRun r0 (rc2ac kr r0).tail kr.length).P = (rc2poly kr r0).2 := by
  have h := levRun_rc2ac_ref kr r0 hr0 hk kr.length le_rfl
  rwa [List.take_length] at h

/-- **rc2ac ∘ ac2rc = id**: for lags `r0 :: T` whose final Levinson error is non-zero (true for a
positive-definite sequence), `rc2ac` of Levinson's reflection coefficients gives the lags back. -/
theorem rc2ac_ac2rc (r0 : K) (T : List K) (hT : T ≠ []) (hP : (levRun r0 T T.length).P ≠ 0) :
    rc2ac (levRun r0 T T.length).ref r0 = r0 :: T :=
  rc2ac_levRun r0 T hT hP

/-- **poly2ac ∘ ac2poly = id**: `rlevinson` applied to Levinson's polynomial and final error gives
the lags back. -/
theorem poly2ac_ac2poly (r0 : K) (T : List K) (hT : T ≠ []) (hP : (levRun r0 T T.length).P ≠ 0) :
    poly2ac (levRun r0 T T.length).A (levRun r0 T T.length).P = r0 :: T := by
  rw [← rc2ac_levRun r0 T hT hP]
  unfold rc2ac
  rw [rc2poly_levRun_ref]

/-- **ac2poly ∘ poly2ac = id**: Levinson run on the lags produced by `poly2ac a e` (`e ≠ 0`, step-down
reflection coefficients of `a` off the unit circle) returns `a`, `e` and `poly2rc a`. -/
theorem ac2poly_poly2ac (a : List K) (e : K) (ha : a ≠ []) (he : e ≠ 0)
    (hk : ∀ k ∈ poly2rc a, 1 - k * star k ≠ 0) :
    (levRun (nth (poly2ac a e) 0) (poly2ac a e).tail a.length).A = a ∧
    (levRun (nth (poly2ac a e) 0) (poly2ac a e).tail a.length).P = e ∧
    (levRun (nth (poly2ac a e) 0) (poly2ac a e).tail a.length).ref = poly2rc a :=
  levRun_poly2ac a e ha he hk

/-- the commuting square on the synthesis side: poly → ac equals poly → rc → ac, the zero lag being
the final error divided by `∏ (1 - |k_i|²)` -/
theorem poly2ac_eq_rc2ac_poly2rc (a : List K) (e : K) (hk : ∀ k ∈ poly2rc a, 1 - k * star k ≠ 0) :
    poly2ac a e
      = rc2ac (poly2rc a) (e / ((poly2rc a).map (fun k => 1 - star k * k)).prod) :=
  poly2ac_eq_rc2ac a e hk

/-- Levinson's non-singular domain in terms of its output: a non-zero final error forces a non-zero
zero lag and every reflection coefficient off the unit circle. -/
theorem ac2rc_domain (r0 : K) (T : List K) (p : ℕ) (hP : (levRun r0 T p).P ≠ 0) :
    r0 ≠ 0 ∧ ∀ k ∈ (levRun r0 T p).ref, 1 - k * star k ≠ 0 :=
  ⟨levRun_P_ne_zero r0 T p hP 0 (Nat.zero_le _), levRun_ref_ne r0 T p hP⟩

/-- non-vacuity: real lags `[1, 1/2]` (positive definite): `k₁ = -1/2`, `E₁ = 3/4`. -/
example : (levRun (1 : ℚ) [1 / 2] 1).ref = [-1 / 2] ∧ (levRun (1 : ℚ) [1 / 2] 1).P = 3 / 4 := by
  norm_num [levRun, levStep, sumR, nth, abs2, conj]

example : rc2ac [(-1 / 2 : ℚ)] 1 = [1, 1 / 2] := by
  norm_num [rc2ac, rc2poly, poly2ac, levup, levdown, stepDowns, stepDownErrs, vec, sumR, nth,
    abs2, conj, List.range, List.range.loop]

/-- the usual domain condition implies the algebraic one: a real reflection coefficient of modulus
`< 1` is off the unit circle -/
theorem real_rc_domain (k : ℝ) (hk : |k| < 1) : 1 - k * star k ≠ 0 := by
  obtain ⟨h1, h2⟩ := abs_lt.mp hk
  rw [star_trivial]
  nlinarith

/-! ### reflection coefficients ↔ log-area ratios, inverse-sine parameters (`K = ℝ`) -/

/-- `lar2rc ∘ rc2lar = id` on `(-1, 1)` -/
theorem lar2rc_rc2lar (k : ℝ) (hk : |k| < 1) : lar2rc (rc2lar k) = k := by
  rw [lar2rc_real, rc2lar_real]
  have h : -(-2 * Real.artanh (-k)) / 2 = Real.artanh (-k) := by ring
  rw [h, Real.tanh_artanh ⟨by linarith [(abs_lt.mp hk).2], by linarith [(abs_lt.mp hk).1]⟩]
  ring

example : |(1 / 2 : ℝ)| < 1 := by norm_num [abs_lt]

/-- `rc2lar ∘ lar2rc = id` on all of `ℝ` -/
theorem rc2lar_lar2rc (g : ℝ) : rc2lar (lar2rc g) = g := by
  rw [rc2lar_real, lar2rc_real, neg_neg, Real.artanh_tanh]
  ring

/-- log-area ratio in closed form: `log ((1+k)/(1-k))` -/
theorem rc2lar_eq_log (k : ℝ) (hk : |k| < 1) : rc2lar k = Real.log ((1 + k) / (1 - k)) := by
  obtain ⟨h1, h2⟩ := abs_lt.mp hk
  rw [rc2lar_real, Real.artanh_eq_half_log ⟨by linarith, by linarith⟩]
  have : (1 + k) / (1 - k) = ((1 + -k) / (1 - -k))⁻¹ := by
    rw [inv_div]; ring
  rw [this, Real.log_inv]
  ring

/-- `lar2rc` lands in the open interval `(-1, 1)` -/
theorem lar2rc_mem (g : ℝ) : -1 < lar2rc g ∧ lar2rc g < 1 := by
  rw [lar2rc_real]
  constructor
  · linarith [Real.tanh_lt_one (-g / 2)]
  · linarith [Real.neg_one_lt_tanh (-g / 2)]

/-- `is2rc ∘ rc2is = id` on `[-1, 1]` -/
theorem is2rc_rc2is (k : ℝ) (hk : |k| ≤ 1) : is2rc (rc2is k) = k := by
  obtain ⟨h1, h2⟩ := abs_le.mp hk
  rw [is2rc_real, rc2is_real]
  have h : 2 / Real.pi * Real.arcsin k * Real.pi / 2 = Real.arcsin k := by
    field_simp [Real.pi_ne_zero]
  rw [h, Real.sin_arcsin h1 h2]

/-- `rc2is ∘ is2rc = id` on `[-1, 1]` -/
theorem rc2is_is2rc (s : ℝ) (hs : |s| ≤ 1) : rc2is (is2rc s) = s := by
  obtain ⟨h1, h2⟩ := abs_le.mp hs
  have hpi := Real.pi_pos
  rw [is2rc_real, rc2is_real, Real.arcsin_sin]
  · field_simp [Real.pi_ne_zero]
  · nlinarith
  · nlinarith

/-- `rc2is` lands in `[-1, 1]` -/
theorem rc2is_mem (k : ℝ) : -1 ≤ rc2is k ∧ rc2is k ≤ 1 := by
  have hpi := Real.pi_pos
  rw [rc2is_real]
  have h1 := Real.neg_pi_div_two_le_arcsin k
  have h2 := Real.arcsin_le_pi_div_two k
  have e : 2 / Real.pi * Real.arcsin k = Real.arcsin k / (Real.pi / 2) := by
    field_simp
  rw [e]
  constructor
  · rw [le_div_iff₀ (by positivity)]; linarith
  · rw [div_le_iff₀ (by positivity)]; linarith

/-! ### prediction polynomial ↔ line spectral frequencies: the algebra of `poly2lsf` / `lsf2poly` -/

section Lsf
open SpecVerif.LpcL
variable {F : Type} [Field F]

/-- `numpy.convolve` of two non-empty coefficient lists has `len p + len q - 1` coefficients, entry
`n` is the convolution sum, and **evaluation is multiplicative**:
`(p * q)(z) = p(z) · q(z)` with `p(z) = Σ_i p_i z^{len p - 1 - i}` (highest power first) -/
theorem polyMul_eval (p q : List F) (hp : p ≠ []) (hq : q ≠ []) (z : F) :
    (polyMul p q).length = p.length + q.length - 1
    ∧ (∀ n, n < p.length + q.length - 1 →
        nth (polyMul p q) n = ∑ i ∈ Finset.range (n + 1), nth p i * nth q (n - i))
    ∧ polyEval (polyMul p q) z = polyEval p z * polyEval q z :=
  ⟨polyMul_length p q hp hq, nth_polyMul p q hp hq, LpcL.polyMul_eval p q hp hq z⟩

/-- **`numpy.poly`**: the polynomial built from a root list has `len rs + 1` coefficients and is the
product of its linear factors, `polyFromRoots rs (z) = ∏_{r ∈ rs} (z - r)`; in particular every
listed root is a root -/
theorem polyFromRoots_eval (rs : List F) (z : F) :
    (polyFromRoots rs).length = rs.length + 1
    ∧ polyEval (polyFromRoots rs) z = (rs.map (fun r => z - r)).prod
    ∧ (z ∈ rs → polyEval (polyFromRoots rs) z = 0) := by
  refine ⟨polyFromRoots_length rs, LpcL.polyFromRoots_eval rs z, ?_⟩
  intro hz
  rw [LpcL.polyFromRoots_eval rs z]
  exact List.prod_eq_zero (List.mem_map.mpr ⟨z, hz, sub_self z⟩)

/-- **the sum and difference polynomials of `poly2lsf`**: with `a1 = a ++ [0]` (`a = [1, a_1..a_p]`),
`P1 = a1 - reverse a1` and `Q1 = a1 + reverse a1` have `p + 2` coefficients, `(P1 + Q1)/2 = a1`
entry by entry, `P1` is antisymmetric and `Q1` symmetric -/
theorem lsfSplit_sum (h2 : (2 : F) ≠ 0) (a : List F) :
    (lsfSplit a).1.length = a.length + 1 ∧ (lsfSplit a).2.length = a.length + 1
    ∧ (∀ i, (nth (lsfSplit a).1 i + nth (lsfSplit a).2 i) / 2 = nth (a ++ [0]) i)
    ∧ (∀ i, i ≤ a.length → nth (lsfSplit a).1 (a.length - i) = -nth (lsfSplit a).1 i)
    ∧ (∀ i, i ≤ a.length → nth (lsfSplit a).2 (a.length - i) = nth (lsfSplit a).2 i) :=
  ⟨(lsfSplit_length a).1, (lsfSplit_length a).2, lsfSplit_half_sum h2 a, lsfSplit_fst_antisymm a,
    lsfSplit_snd_symm a⟩

/-- **the fixed roots** removed by `deconvolve` in `poly2lsf` and re-inserted by `lsf2poly`: the
difference polynomial `P1` always vanishes at `z = 1`; for odd order `p` it also vanishes at `z = -1`
(factor `[1, 0, -1]`), for even `p` the sum polynomial `Q1` vanishes at `z = -1` (factors `[1, -1]`
and `[1, 1]`) -/
theorem lsfSplit_fixed_roots (a : List F) (p : ℕ) (ha : a.length = p + 1) :
    polyEval (lsfSplit a).1 1 = 0
    ∧ (p % 2 = 1 → polyEval (lsfSplit a).1 (-1) = 0)
    ∧ (p % 2 = 0 → polyEval (lsfSplit a).2 (-1) = 0) :=
  ⟨lsfSplit_fst_root_one a,
    fun hp => lsfSplit_fst_root_neg_one a (by omega),
    fun hp => lsfSplit_snd_root_neg_one a (by omega)⟩

/-- the three fixed factors as polynomials: `[1, -1] = z - 1`, `[1, 1] = z + 1`,
`[1, 0, -1] = z² - 1`, so a deflated polynomial `P` with `P * f = P1` satisfies
`P1(z) = P(z) · f(z)` -/
theorem lsf_fixed_factor_eval (z : F) :
    polyEval ([1, -1] : List F) z = z - 1 ∧ polyEval ([1, 1] : List F) z = z + 1
    ∧ polyEval ([1, 0, -1] : List F) z = z ^ 2 - 1 := by
  refine ⟨polyEval_linear 1 z, ?_, ?_⟩
  · simp [polyEval, Finset.sum_range_succ, nth]
  · simp [polyEval, Finset.sum_range_succ, nth]
    ring

/-- **`lsf2poly ∘ poly2lsf = id`, algebraic form**: let `(P1, Q1) = lsfSplit a` for a prediction
polynomial `a` of order `p` (`len a = p + 1`), let `P`, `Q` be the deflated polynomials that
`deconvolve` returns with zero remainder (`P * [1,0,-1] = P1`, `Q * [1] = Q1` for odd `p`;
`P * [1,-1] = P1`, `Q * [1,1] = Q1` for even `p`), and let `rP`, `rQ` be *any* root lists with
`numpy.poly rP = P`, `numpy.poly rQ = Q` (the contract of `numpy.roots`).  Then the synthesis step of
`lsf2poly` returns `a`, and there are `2p` roots in total (`p` conjugate pairs = `p` line spectral
frequencies). -/
theorem lsf_roundtrip_algebra (h2 : (2 : F) ≠ 0) (a : List F) (p : ℕ) (ha : a.length = p + 1)
    (P Q rP rQ : List F)
    (hP : polyMul P (if p % 2 = 1 then [1, 0, -1] else [1, -1]) = (lsfSplit a).1)
    (hQ : polyMul Q (if p % 2 = 1 then [1] else [1, 1]) = (lsfSplit a).2)
    (hrP : polyFromRoots rP = P) (hrQ : polyFromRoots rQ = Q) :
    lsfRecombine rQ rP p = a ∧ rP.length + rQ.length = 2 * p := by
  have hPne : P ≠ [] := by
    intro h
    have := polyFromRoots_length rP
    rw [hrP, h] at this
    simp at this
  have hQne : Q ≠ [] := by
    intro h
    have := polyFromRoots_length rQ
    rw [hrQ, h] at this
    simp at this
  have hlP : P.length = rP.length + 1 := by rw [← hrP]; exact polyFromRoots_length rP
  have hlQ : Q.length = rQ.length + 1 := by rw [← hrQ]; exact polyFromRoots_length rQ
  have hl1 := (lsfSplit_length a).1
  have hl2 := (lsfSplit_length a).2
  by_cases hodd : p % 2 = 1
  · rw [if_pos hodd] at hP hQ
    rw [polyMul_one] at hQ
    constructor
    · unfold lsfRecombine
      simp only [hrP, hrQ, if_pos hodd, hP, hQ]
      exact recombine_lsfSplit h2 a
    · have h1 := polyMul_length P [1, 0, -1] hPne (by simp)
      rw [hP, hl1] at h1
      rw [hQ] at hlQ
      simp only [List.length_cons, List.length_nil] at h1
      omega
  · rw [if_neg hodd] at hP hQ
    constructor
    · unfold lsfRecombine
      simp only [hrP, hrQ, if_neg hodd, hP, hQ]
      exact recombine_lsfSplit h2 a
    · have h1 := polyMul_length P [1, -1] hPne (by simp)
      have h3 := polyMul_length Q [1, 1] hQne (by simp)
      rw [hP, hl1] at h1
      rw [hQ, hl2] at h3
      simp only [List.length_cons, List.length_nil] at h1 h3
      omega

/-- **`deconvolve` leaves zero remainder**: for every polynomial `a` of order `p` (`len a = p + 1`,
`2 ≠ 0`) the deflated polynomials assumed by `lsf_roundtrip_algebra` exist — `P1` is divisible by
`[1, 0, -1]` (odd `p`) resp. `[1, -1]` (even `p`) and `Q1` by `[1]` resp. `[1, 1]` (synthetic division
by the fixed roots `±1`) — and the quotients keep the leading coefficient of `a` (they are monic when
`a[0] = 1`, as the contract `numpy.poly(numpy.roots(P)) = P` requires). -/
theorem lsf_deflation_exists (h2 : (2 : F) ≠ 0) (a : List F) (p : ℕ) (ha : a.length = p + 1) :
    ∃ P Q : List F,
      polyMul P (if p % 2 = 1 then [1, 0, -1] else [1, -1]) = (lsfSplit a).1
      ∧ polyMul Q (if p % 2 = 1 then [1] else [1, 1]) = (lsfSplit a).2
      ∧ nth P 0 = nth a 0 ∧ nth Q 0 = nth a 0 := by
  have hane : a ≠ [] := by intro h; rw [h] at ha; simp at ha
  obtain ⟨hlead1, hlead2⟩ := lsfSplit_lead a hane
  have hl1 := (lsfSplit_length a).1
  have hl2 := (lsfSplit_length a).2
  obtain ⟨P', hP'len, hP'mul, hP'0⟩ :=
    exists_polyMul_linear (lsfSplit a).1 (by omega) 1 (lsfSplit_fst_root_one a)
  by_cases hodd : p % 2 = 1
  · simp only [if_pos hodd]
    have hP'ne : P' ≠ [] := by intro h; rw [h] at hP'len; simp at hP'len; omega
    have hroot : polyEval P' (-1) = 0 := by
      have h := lsfSplit_fst_root_neg_one a (by omega)
      rw [← hP'mul, LpcL.polyMul_eval P' [1, -1] hP'ne (by simp), polyEval_linear] at h
      have hne : (-1 - 1 : F) ≠ 0 := by
        have : (-1 - 1 : F) = -2 := by ring
        rw [this]; exact neg_ne_zero.mpr h2
      exact (mul_eq_zero.mp h).resolve_right hne
    obtain ⟨P, hPlen, hPmul, hP0⟩ := exists_polyMul_linear P' (by omega) (-1) hroot
    rw [neg_neg] at hPmul
    have hPne : P ≠ [] := by intro h; rw [h] at hPlen; simp at hPlen; omega
    refine ⟨P, (lsfSplit a).2, ?_, polyMul_one _, ?_, hlead2⟩
    · rw [← polyMul_linear_pair P hPne, hPmul, hP'mul]
    · rw [hP0, hP'0, hlead1]
  · simp only [if_neg hodd]
    obtain ⟨Q, _, hQmul, hQ0⟩ := exists_polyMul_linear (lsfSplit a).2 (by omega) (-1)
      (lsfSplit_snd_root_neg_one a (by omega))
    rw [neg_neg] at hQmul
    exact ⟨P', Q, hP'mul, hQmul, by rw [hP'0, hlead1], by rw [hQ0, hlead2]⟩

/-- non-vacuity of `lsf_roundtrip_algebra` (odd order): `a = [1, 5/4]` over `ℚ` (`p = 1`) has
`P1 = [1, 0, -1]`, `Q1 = [1, 5/2, 1] = (z + 2)(z + 1/2)`; the deflated `P = [1]` has no roots, and
the recombination returns `a` -/
example : lsfSplit ([1, 5 / 4] : List ℚ) = ([1, 0, -1], [1, 5 / 2, 1])
    ∧ polyMul (polyFromRoots ([] : List ℚ)) [1, 0, -1] = [1, 0, -1]
    ∧ polyFromRoots ([-2, -1 / 2] : List ℚ) = [1, 5 / 2, 1]
    ∧ lsfRecombine ([-2, -1 / 2] : List ℚ) [] 1 = [1, 5 / 4] := by
  decide +kernel

/-- non-vacuity (even order): `a = [1, 0, 1/4]` over `ℚ` (`p = 2`); the deflated polynomials have no
rational roots, so only the split and the fixed factors are exhibited:
`P1 = [1, -1/4, 1/4, -1] = [1, 3/4, 1] * [1, -1]`, `Q1 = [1, 1/4, 1/4, 1] = [1, -3/4, 1] * [1, 1]` -/
example : lsfSplit ([1, 0, 1 / 4] : List ℚ) = ([1, -1 / 4, 1 / 4, -1], [1, 1 / 4, 1 / 4, 1])
    ∧ polyMul ([1, 3 / 4, 1] : List ℚ) [1, -1] = [1, -1 / 4, 1 / 4, -1]
    ∧ polyMul ([1, -3 / 4, 1] : List ℚ) [1, 1] = [1, 1 / 4, 1 / 4, 1] := by
  decide +kernel

end Lsf

/-! ### the zeros of the line spectral polynomials lie on the unit circle, are simple and distinct

`E` is `ℝ` or `ℂ` (`RCLike`); "real polynomial" means self-conjugate coefficients (`star c_j = c_j`), so
that over `E = ℂ` the statements are about the complex zeros of a real prediction polynomial
`a = [1, c_1..c_p]`, which is what `poly2lsf` hands to `numpy.roots`.  "Minimum phase" is stated through
the reflection coefficients: `‖k‖ < 1` for every `k ∈ poly2rc c` (equivalently, `c = rc2poly kr` with all
`‖k_i‖ < 1`, `rc2poly_poly2rc` / `poly2rc_rc2poly`).  `polyA c z = z^p + Σ c_j z^{p-1-j}`,
`polyB c z = 1 + Σ conj(c_j) z^{j+1}`, `polyR c z = 1 + Σ c_j z^{j+1}` are the prediction polynomial,
its reciprocal and its reverse (`Lemmas/SchurCohn.lean`). -/

section LsfCircle
open SpecVerif.LpcL SpecVerif.SchurL SpecVerif.LsfCircleL
variable {E : Type} [RCLike E]

/-- **strict Schur–Cohn**: with at least one stage and all `|k_i| < 1`, the step-up polynomial strictly
dominates its reciprocal outside the unit circle, and is strictly dominated inside -/
theorem schur_cohn_strict (kr : List E) (r0 : E) (hne : kr ≠ []) (hk : ∀ k ∈ kr, ‖k‖ < 1) (z : E) :
    (1 < ‖z‖ → ‖polyB (rc2poly kr r0).1 z‖ < ‖polyA (rc2poly kr r0).1 z‖)
    ∧ (‖z‖ < 1 → ‖polyA (rc2poly kr r0).1 z‖ < ‖polyB (rc2poly kr r0).1 z‖) :=
  ⟨schur_strict_outside kr r0 hne hk z, schur_strict_inside kr r0 hne hk z⟩

/-- non-vacuity: two real reflection coefficients of modulus `< 1` -/
example : ([(1 / 2 : ℝ), -1 / 3] ≠ []) ∧ ∀ k ∈ [(1 / 2 : ℝ), -1 / 3], ‖k‖ < 1 := by
  refine ⟨by simp, ?_⟩
  intro k hk
  simp only [List.mem_cons, List.not_mem_nil, or_false] at hk
  rcases hk with rfl | rfl <;> rw [Real.norm_eq_abs, abs_lt] <;> constructor <;> norm_num

/-- **the line spectral polynomials in closed form**: for `a = 1 :: c`,
`P1(z) = z·A(z) − R(z)` and `Q1(z) = z·A(z) + R(z)` with `R(z) = z^p A(1/z)` the reversed polynomial
(any field) -/
theorem lsfSplit_eval {F : Type} [Field F] (c : List F) (z : F) :
    polyEval (lsfSplit ((1 : F) :: c)).1 z = z * polyA c z - polyR c z
    ∧ polyEval (lsfSplit ((1 : F) :: c)).2 z = z * polyA c z + polyR c z :=
  polyEval_lsfSplit_cons c z

/-- **every zero of `P1` and of `Q1` lies on the unit circle** when the real prediction polynomial
`[1, c_1..c_p]` is minimum phase; `z = 0` is never a zero -/
theorem lsf_roots_on_unit_circle (c : List E) (hreal : ∀ j, star (nth c j) = nth c j)
    (hk : ∀ k ∈ poly2rc c, ‖k‖ < 1) (z : E) :
    (polyEval (lsfSplit ((1 : E) :: c)).1 z = 0 → ‖z‖ = 1)
    ∧ (polyEval (lsfSplit ((1 : E) :: c)).2 z = 0 → ‖z‖ = 1) := by
  obtain ⟨kr, hr, hk', _, rfl⟩ := minphase_eq_rc2poly c hreal hk
  constructor
  · intro h0
    by_contra hne
    exact (lsfSplit_eval_ne_zero kr 1 hr hk' z hne).1 h0
  · intro h0
    by_contra hne
    exact (lsfSplit_eval_ne_zero kr 1 hr hk' z hne).2 h0

/-- the same for a polynomial given by its reflection coefficients -/
theorem lsf_roots_on_unit_circle_rc (kr : List E) (r0 : E) (hreal : ∀ k ∈ kr, star k = k)
    (hk : ∀ k ∈ kr, ‖k‖ < 1) (z : E) :
    (polyEval (lsfSplit ((1 : E) :: (rc2poly kr r0).1)).1 z = 0 → ‖z‖ = 1)
    ∧ (polyEval (lsfSplit ((1 : E) :: (rc2poly kr r0).1)).2 z = 0 → ‖z‖ = 1) := by
  constructor
  · intro h0
    by_contra hne
    exact (lsfSplit_eval_ne_zero kr r0 hreal hk z hne).1 h0
  · intro h0
    by_contra hne
    exact (lsfSplit_eval_ne_zero kr r0 hreal hk z hne).2 h0

/-- non-vacuity of the hypotheses: `c = [1/3, -1/3]` over `ℂ` is real with reflection coefficients
`[1/2, -1/3]` -/
example : (∀ j, star (nth ([1 / 3, -1 / 3] : List ℂ) j) = nth ([1 / 3, -1 / 3] : List ℂ) j)
    ∧ poly2rc ([1 / 3, -1 / 3] : List ℂ) = [1 / 2, -1 / 3]
    ∧ ∀ k ∈ ([1 / 2, -1 / 3] : List ℂ), ‖k‖ < 1 := by
  refine ⟨?_, ?_, ?_⟩
  · intro j
    rcases j with _ | _ | j <;> simp [nth]
  · norm_num [poly2rc, levdown, stepDowns, vec, nth, abs2, conj, List.range, List.range.loop]
  · intro k hk
    simp only [List.mem_cons, List.not_mem_nil, or_false] at hk
    rcases hk with rfl | rfl <;> norm_num

/-- **`P1` and `Q1` have no common zero** -/
theorem lsf_no_common_root (c : List E) (hreal : ∀ j, star (nth c j) = nth c j)
    (hk : ∀ k ∈ poly2rc c, ‖k‖ < 1) (z : E) :
    ¬ (polyEval (lsfSplit ((1 : E) :: c)).1 z = 0 ∧ polyEval (lsfSplit ((1 : E) :: c)).2 z = 0) := by
  obtain ⟨kr, hr, hk', _, rfl⟩ := minphase_eq_rc2poly c hreal hk
  exact fun h => lsfSplit_no_common_zero kr 1 hr hk' z h.1 h.2

/-- the zeros of `P1` and of `Q1` come in conjugate pairs (real coefficients) -/
theorem lsf_roots_conj_closed (c : List E) (hreal : ∀ j, star (nth c j) = nth c j) (z : E) :
    (polyEval (lsfSplit ((1 : E) :: c)).1 z = 0 → polyEval (lsfSplit ((1 : E) :: c)).1 (star z) = 0)
    ∧ (polyEval (lsfSplit ((1 : E) :: c)).2 z = 0
        → polyEval (lsfSplit ((1 : E) :: c)).2 (star z) = 0) := by
  have ha := cons_one_star_fixed c hreal
  constructor
  · intro h
    rw [polyEval_star _ (fun j => (lsfSplit_star_fixed _ ha j).1), h, star_zero]
  · intro h
    rw [polyEval_star _ (fun j => (lsfSplit_star_fixed _ ha j).2), h, star_zero]

/-- **the zeros of `P1` and of `Q1` are simple**: neither polynomial can be written as
`(z − z0)²·H(z)` with a continuous (in particular: polynomial) cofactor `H`.  (Christoffel–Darboux
kernel of the step-up recursion, `LsfCircleL.cd_kernel`.) -/
theorem lsf_roots_simple (c : List E) (hreal : ∀ j, star (nth c j) = nth c j)
    (hk : ∀ k ∈ poly2rc c, ‖k‖ < 1) (z0 : E) (H : E → E) (hH : Continuous H) :
    (¬ ∀ z, polyEval (lsfSplit ((1 : E) :: c)).1 z = (z - z0) ^ 2 * H z)
    ∧ (¬ ∀ z, polyEval (lsfSplit ((1 : E) :: c)).2 z = (z - z0) ^ 2 * H z) := by
  obtain ⟨kr, hr, hk', _, rfl⟩ := minphase_eq_rc2poly c hreal hk
  exact lsfSplit_no_double_zero kr 1 hr hk' z0 H hH

/-- **the roots computed by `poly2lsf`**, relative to the contract of `numpy.roots` (the root lists
multiply back to the deflated polynomials, as in `lsf_roundtrip_algebra`): every one of the `2p` roots
has modulus 1, none is `±1` (so none is real), they are pairwise distinct — within `rP`, within `rQ`
and between the two — and each list is closed under conjugation -/
theorem lsf_computed_roots_unit_distinct (c : List E) (hreal : ∀ j, star (nth c j) = nth c j)
    (hk : ∀ k ∈ poly2rc c, ‖k‖ < 1) (p : ℕ) (hp : c.length = p) (P Q rP rQ : List E)
    (hP : polyMul P (if p % 2 = 1 then [1, 0, -1] else [1, -1]) = (lsfSplit ((1 : E) :: c)).1)
    (hQ : polyMul Q (if p % 2 = 1 then [1] else [1, 1]) = (lsfSplit ((1 : E) :: c)).2)
    (hrP : polyFromRoots rP = P) (hrQ : polyFromRoots rQ = Q) :
    (∀ r ∈ rP ++ rQ, ‖r‖ = 1 ∧ r ≠ 1 ∧ r ≠ -1) ∧ (rP ++ rQ).Nodup
      ∧ (∀ r ∈ rP, star r ∈ rP) ∧ (∀ r ∈ rQ, star r ∈ rQ)
      ∧ rP.length + rQ.length = 2 * p := by
  have hlen := (lsf_roundtrip_algebra (two_ne_zero : (2 : E) ≠ 0) ((1 : E) :: c) p
    (by rw [List.length_cons, hp]) P Q rP rQ hP hQ hrP hrQ).2
  obtain ⟨kr, hr, hk', hkl, rfl⟩ := minphase_eq_rc2poly c hreal hk
  obtain ⟨h1, h2, h3, h4⟩ :=
    lsf_computed_roots kr 1 hr hk' p (hkl.trans hp) P Q rP rQ hP hQ hrP hrQ
  exact ⟨h1, h2, h3, h4, hlen⟩

/-- non-vacuity of the hypotheses and of the root contract (order 2): `a = [1, -3/5, 2/5]` over `ℂ`
is real with reflection coefficients `[-3/7, 2/5]`; `P1 = [1, -1, 1, -1] = (z² + 1)(z − 1)` with computed
roots `±i`, `Q1 = [1, -1/5, -1/5, 1] = (z² − (6/5) z + 1)(z + 1)` with computed roots `(3 ± 4i)/5` —
unimodular, distinct, conjugate, angles `π/2` and `arctan(4/3)` -/
example : (∀ j, star (nth ([-3 / 5, 2 / 5] : List ℂ) j) = nth ([-3 / 5, 2 / 5] : List ℂ) j)
    ∧ poly2rc ([-3 / 5, 2 / 5] : List ℂ) = [-3 / 7, 2 / 5]
    ∧ (∀ k ∈ ([-3 / 7, 2 / 5] : List ℂ), ‖k‖ < 1)
    ∧ polyMul (polyFromRoots ([Complex.I, -Complex.I] : List ℂ)) [1, -1]
        = (lsfSplit ([1, -3 / 5, 2 / 5] : List ℂ)).1
    ∧ polyMul (polyFromRoots ([(3 + 4 * Complex.I) / 5, (3 - 4 * Complex.I) / 5] : List ℂ)) [1, 1]
        = (lsfSplit ([1, -3 / 5, 2 / 5] : List ℂ)).2 := by
  have h1 : polyFromRoots ([Complex.I, -Complex.I] : List ℂ) = [1, 0, 1] := by
    simp [polyFromRoots, polyMul, vec, nth, sumR, List.range, List.range.loop,
      Finset.sum_range_succ]
  have h2 : polyFromRoots ([(3 + 4 * Complex.I) / 5, (3 - 4 * Complex.I) / 5] : List ℂ)
      = [1, -6 / 5, 1] := by
    simp [polyFromRoots, polyMul, vec, nth, sumR, List.range, List.range.loop,
      Finset.sum_range_succ]
    constructor
    · ring
    · ring_nf; simp; norm_num
  refine ⟨?_, ?_, ?_, ?_, ?_⟩
  · intro j
    rcases j with _ | _ | j <;> simp [nth]
  · norm_num [poly2rc, levdown, stepDowns, vec, nth, abs2, conj, List.range, List.range.loop]
  · intro k hk
    simp only [List.mem_cons, List.not_mem_nil, or_false] at hk
    rcases hk with rfl | rfl <;> norm_num
  · rw [h1]
    simp [lsfSplit, polyMul, vec, nth, sumR, List.range, List.range.loop, Finset.sum_range_succ]
    norm_num
  · rw [h2]
    simp [lsfSplit, polyMul, vec, nth, sumR, List.range, List.range.loop, Finset.sum_range_succ]
    norm_num

/-- **the line spectral frequencies are `p` distinct real angles in `(0, π)`** (`E = ℂ`): under the
root contract every computed root is `e^{iθ}` with `θ = numpy.angle(r) ∈ (−π, π) \ {0}`, its conjugate
(angle `−θ`) is also computed, distinct roots have distinct angles, exactly `p` of the `2p` angles are
positive, and any list `lsf` that is a sorted rearrangement of the positive angles has length `p`, is
**strictly increasing** and lies in `(0, π)`.  (`poly2lsf` picks one root of each conjugate pair by
position, `rP[1::2]`, and negates the angle — that relies on the ordering of `numpy.roots`' output,
which is not modelled; the statement is about the positive representatives.) -/
theorem lsf_angles (c : List ℂ) (hreal : ∀ j, star (nth c j) = nth c j)
    (hk : ∀ k ∈ poly2rc c, ‖k‖ < 1) (p : ℕ) (hp : c.length = p) (P Q rP rQ : List ℂ)
    (hP : polyMul P (if p % 2 = 1 then [1, 0, -1] else [1, -1]) = (lsfSplit ((1 : ℂ) :: c)).1)
    (hQ : polyMul Q (if p % 2 = 1 then [1] else [1, 1]) = (lsfSplit ((1 : ℂ) :: c)).2)
    (hrP : polyFromRoots rP = P) (hrQ : polyFromRoots rQ = Q) :
    (∀ r ∈ rP ++ rQ, Complex.exp (r.arg * Complex.I) = r ∧ -Real.pi < r.arg ∧ r.arg < Real.pi
        ∧ r.arg ≠ 0 ∧ (star r).arg = -r.arg ∧ star r ∈ rP ++ rQ)
    ∧ ((rP ++ rQ).map Complex.arg).Nodup
    ∧ ∀ lsf : List ℝ,
        lsf.Perm (((rP ++ rQ).map Complex.arg).filter (fun θ => decide (0 < θ))) →
        lsf.Pairwise (· ≤ ·) →
        lsf.length = p ∧ lsf.Pairwise (· < ·) ∧ ∀ θ ∈ lsf, 0 < θ ∧ θ < Real.pi := by
  obtain ⟨h1, h2, h3, h4, h5⟩ :=
    lsf_computed_roots_unit_distinct c hreal hk p hp P Q rP rQ hP hQ hrP hrQ
  have hang : ∀ r ∈ rP ++ rQ, Complex.exp (r.arg * Complex.I) = r ∧ -Real.pi < r.arg
      ∧ r.arg < Real.pi ∧ r.arg ≠ 0 ∧ (star r).arg = -r.arg :=
    fun r hr => unit_arg r (h1 r hr).1 (h1 r hr).2.1 (h1 r hr).2.2
  have hconj : ∀ r ∈ rP ++ rQ, star r ∈ rP ++ rQ := by
    intro r hr
    rcases List.mem_append.mp hr with h | h
    · exact List.mem_append.mpr (Or.inl (h3 r h))
    · exact List.mem_append.mpr (Or.inr (h4 r h))
  have hnd : ((rP ++ rQ).map Complex.arg).Nodup := by
    refine List.Nodup.map_on ?_ h2
    intro x hx y hy hxy
    exact Complex.ext_norm_arg ((h1 x hx).1.trans (h1 y hy).1.symm) hxy
  have hcount := pos_angle_count (rP ++ rQ) h2 hconj
    (fun r hr => ⟨(hang r hr).2.2.2.1, (hang r hr).2.2.2.2⟩)
  refine ⟨fun r hr => ⟨(hang r hr).1, (hang r hr).2.1, (hang r hr).2.2.1, (hang r hr).2.2.2.1,
    (hang r hr).2.2.2.2, hconj r hr⟩, hnd, ?_⟩
  intro lsf hperm hsorted
  have hfl : (((rP ++ rQ).map Complex.arg).filter (fun θ => decide (0 < θ))).length = p := by
    rw [List.filter_map, List.length_map]
    have : (rP ++ rQ).length = 2 * p := by rw [List.length_append, h5]
    have hc : (List.filter ((fun θ => decide (0 < θ)) ∘ Complex.arg) (rP ++ rQ))
        = List.filter (fun r : ℂ => decide (0 < r.arg)) (rP ++ rQ) := rfl
    rw [hc]
    omega
  refine ⟨by rw [hperm.length_eq, hfl], ?_, ?_⟩
  · have hnd' : lsf.Nodup := hperm.nodup_iff.mpr (hnd.filter _)
    exact (hsorted.and hnd').imp (fun h => lt_of_le_of_ne h.1 h.2)
  · intro θ hθ
    have hmem := (hperm.mem_iff).mp hθ
    rw [List.mem_filter, List.mem_map] at hmem
    obtain ⟨⟨r, hr, rfl⟩, hpos⟩ := hmem
    exact ⟨of_decide_eq_true hpos, (hang r hr).2.2.1⟩

end LsfCircle

/-! ### interlacing: the zeros of `P1` and `Q1` alternate round the unit circle

Helper lemmas in `Proofs/Lemmas/LsfInterlace.lean` (namespace `SpecVerif.LsfInterlaceL`).  The
Christoffel–Darboux kernel `S` of the step-up recursion gives, for all complex `z`, `w`,
`P1(z)·conj Q1(w) + Q1(z)·conj P1(w) = −2(1 − z·conj w)·S(z, w)`; on the circle this makes `P1/Q1` purely
imaginary with `d/dt [P1/Q1](e^{it}) = i·2·S(w,w)/|Q1(w)|²`, `S(w,w) ≥ |A(w)|² > 0` (monotone phase of the
all-pass function `zA/B`), and Rolle's theorem applied to `Im(P1/Q1)` yields Sturm's separation: between
two zeros of `P1` there is a zero of `Q1`; the identity is symmetric in `P1 ↔ Q1`. -/

section LsfInterlace
open SpecVerif.LpcL SpecVerif.SchurL SpecVerif.LsfCircleL SpecVerif.LsfInterlaceL
  SpecVerif.LsfRoundtripL

/-- **interlacing theorem of the line spectral pairs**: for a real minimum-phase prediction polynomial
`[1, c_1..c_p]`, between any two zeros `e^{it1}`, `e^{it2}` (`t1 < t2`, any real angles, in particular
`0 ≤ t1 < t2 ≤ π` with the fixed zeros `z = ±1` included) of the difference polynomial `P1` there is a
zero `e^{is}`, `t1 < s < t2`, of the sum polynomial `Q1` — and between any two zeros of `Q1` there is a
zero of `P1`. -/
theorem lsf_zeros_interlace (c : List ℂ) (hreal : ∀ j, star (nth c j) = nth c j)
    (hk : ∀ k ∈ poly2rc c, ‖k‖ < 1) (t1 t2 : ℝ) (h12 : t1 < t2) :
    (polyEval (lsfSplit ((1 : ℂ) :: c)).1 (Complex.exp (t1 * Complex.I)) = 0 →
      polyEval (lsfSplit ((1 : ℂ) :: c)).1 (Complex.exp (t2 * Complex.I)) = 0 →
      ∃ s : ℝ, t1 < s ∧ s < t2 ∧ polyEval (lsfSplit ((1 : ℂ) :: c)).2 (Complex.exp (s * Complex.I)) = 0)
    ∧ (polyEval (lsfSplit ((1 : ℂ) :: c)).2 (Complex.exp (t1 * Complex.I)) = 0 →
      polyEval (lsfSplit ((1 : ℂ) :: c)).2 (Complex.exp (t2 * Complex.I)) = 0 →
      ∃ s : ℝ, t1 < s ∧ s < t2
        ∧ polyEval (lsfSplit ((1 : ℂ) :: c)).1 (Complex.exp (s * Complex.I)) = 0) := by
  obtain ⟨kr, hr, hk', _, rfl⟩ := minphase_eq_rc2poly c hreal hk
  exact lsfSplit_interlace kr 1 hr hk' t1 t2 h12

/-- non-vacuity of `lsf_zeros_interlace`: for `a = [1, -3/5, 2/5]` (real, reflection coefficients
`[-3/7, 2/5]`, see the example above) `P1 = (z² + 1)(z − 1)` vanishes at `e^{i·0} = 1` and at
`e^{iπ/2} = i`; the zero of `Q1` in between is `(3 + 4i)/5` -/
example : (0 : ℝ) < Real.pi / 2
    ∧ polyEval (lsfSplit ([1, -3 / 5, 2 / 5] : List ℂ)).1 (Complex.exp (((0 : ℝ) : ℂ) * Complex.I)) = 0
    ∧ polyEval (lsfSplit ([1, -3 / 5, 2 / 5] : List ℂ)).1
        (Complex.exp (((Real.pi / 2 : ℝ) : ℂ) * Complex.I)) = 0
    ∧ polyEval (lsfSplit ([1, -3 / 5, 2 / 5] : List ℂ)).2 ((3 + 4 * Complex.I) / 5) = 0 := by
  have hP : (lsfSplit ([1, -3 / 5, 2 / 5] : List ℂ)).1 = [1, -1, 1, -1] := by
    simp [lsfSplit, vec, nth, List.range, List.range.loop]
    norm_num
  have hQ : (lsfSplit ([1, -3 / 5, 2 / 5] : List ℂ)).2 = [1, -1 / 5, -1 / 5, 1] := by
    simp [lsfSplit, vec, nth, List.range, List.range.loop]
    norm_num
  refine ⟨by positivity, ?_, ?_, ?_⟩
  · rw [hP]
    simp [polyEval, Finset.sum_range_succ, nth]
  · rw [hP]
    push_cast
    rw [Complex.exp_pi_div_two_mul_I]
    simp [polyEval, Finset.sum_range_succ, nth, pow_succ]
  · rw [hQ]
    simp [polyEval, Finset.sum_range_succ, nth]
    ring_nf
    simp [Complex.I_sq]

/-- **the computed roots interlace**, relative to the contract of `numpy.roots` (as in
`lsf_computed_roots_unit_distinct`): between the positive angles of two roots of the deflated `P` lies the
angle of a root of the deflated `Q`, and vice versa; below the positive angle of any root of `P` lies a
positive angle of a root of `Q` (fixed zero `z = 1` of `P1`), so the smallest line spectral frequency
belongs to `Q`; above the positive angle of any root of `Q` (even order, fixed zero `z = −1` of `Q1`) resp.
of `P` (odd order, fixed zero `z = −1` of `P1`) lies the angle of a root of the other polynomial, so the
largest line spectral frequency belongs to `P` for even and to `Q` for odd order -/
theorem lsf_computed_roots_interlace (c : List ℂ) (hreal : ∀ j, star (nth c j) = nth c j)
    (hk : ∀ k ∈ poly2rc c, ‖k‖ < 1) (p : ℕ) (hp : c.length = p) (P Q rP rQ : List ℂ)
    (hP : polyMul P (if p % 2 = 1 then [1, 0, -1] else [1, -1]) = (lsfSplit ((1 : ℂ) :: c)).1)
    (hQ : polyMul Q (if p % 2 = 1 then [1] else [1, 1]) = (lsfSplit ((1 : ℂ) :: c)).2)
    (hrP : polyFromRoots rP = P) (hrQ : polyFromRoots rQ = Q) :
    (∀ r1 ∈ rP, ∀ r2 ∈ rP, 0 < r1.arg → r1.arg < r2.arg →
        ∃ q ∈ rQ, r1.arg < q.arg ∧ q.arg < r2.arg)
    ∧ (∀ q1 ∈ rQ, ∀ q2 ∈ rQ, 0 < q1.arg → q1.arg < q2.arg →
        ∃ r ∈ rP, q1.arg < r.arg ∧ r.arg < q2.arg)
    ∧ (∀ r ∈ rP, 0 < r.arg → ∃ q ∈ rQ, 0 < q.arg ∧ q.arg < r.arg)
    ∧ (p % 2 = 0 → ∀ q ∈ rQ, 0 < q.arg → ∃ r ∈ rP, q.arg < r.arg ∧ r.arg < Real.pi)
    ∧ (p % 2 = 1 → ∀ r ∈ rP, 0 < r.arg → ∃ q ∈ rQ, r.arg < q.arg ∧ q.arg < Real.pi) := by
  obtain ⟨kr, hr, hk', hkl, rfl⟩ := minphase_eq_rc2poly c hreal hk
  exact lsf_computed_interlace kr 1 hr hk' p (hkl.trans hp) P Q rP rQ hP hQ hrP hrQ

/-- **the sorted line spectral frequencies alternate between `Q` and `P`, starting with `Q`**: under the
hypotheses of `lsf_angles`, in any sorted rearrangement `lsf` of the positive angles of the computed roots
the entries at even positions `0, 2, 4, …` are angles of roots of the deflated sum polynomial `Q` and the
entries at odd positions `1, 3, 5, …` are angles of roots of the deflated difference polynomial `P` (the two
kinds are disjoint: the angles of `rP ++ rQ` are pairwise distinct by `lsf_angles`).  This is the
assignment `rQ = z[0::2]`, `rP = z[1::2]` that `lsf2poly` makes. -/
theorem lsf_sorted_alternate (c : List ℂ) (hreal : ∀ j, star (nth c j) = nth c j)
    (hk : ∀ k ∈ poly2rc c, ‖k‖ < 1) (p : ℕ) (hp : c.length = p) (P Q rP rQ : List ℂ)
    (hP : polyMul P (if p % 2 = 1 then [1, 0, -1] else [1, -1]) = (lsfSplit ((1 : ℂ) :: c)).1)
    (hQ : polyMul Q (if p % 2 = 1 then [1] else [1, 1]) = (lsfSplit ((1 : ℂ) :: c)).2)
    (hrP : polyFromRoots rP = P) (hrQ : polyFromRoots rQ = Q) (lsf : List ℝ)
    (hperm : lsf.Perm (((rP ++ rQ).map Complex.arg).filter (fun θ => decide (0 < θ))))
    (hsorted : lsf.Pairwise (· ≤ ·)) :
    ∀ (i : ℕ) (hi : i < lsf.length),
      (i % 2 = 0 → lsf[i] ∈ rQ.map Complex.arg) ∧ (i % 2 = 1 → lsf[i] ∈ rP.map Complex.arg) := by
  obtain ⟨_, _, hsort⟩ := lsf_angles c hreal hk p hp P Q rP rQ hP hQ hrP hrQ
  obtain ⟨_, hstrict, _⟩ := hsort lsf hperm hsorted
  obtain ⟨h1, h2, h3, _, _⟩ :=
    lsf_computed_roots_interlace c hreal hk p hp P Q rP rQ hP hQ hrP hrQ
  have hmem : ∀ x, x ∈ lsf ↔ (∃ r ∈ rP ++ rQ, r.arg = x) ∧ 0 < x := by
    intro x
    rw [hperm.mem_iff, List.mem_filter, List.mem_map, decide_eq_true_eq]
  have hinP : ∀ r ∈ rP, 0 < r.arg → r.arg ∈ lsf := fun r hr h0 =>
    (hmem _).mpr ⟨⟨r, List.mem_append.mpr (Or.inl hr), rfl⟩, h0⟩
  have hinQ : ∀ r ∈ rQ, 0 < r.arg → r.arg ∈ lsf := fun r hr h0 =>
    (hmem _).mpr ⟨⟨r, List.mem_append.mpr (Or.inr hr), rfl⟩, h0⟩
  refine alternate_of_sorted lsf hstrict (fun x => x ∈ rP.map Complex.arg)
    (fun x => x ∈ rQ.map Complex.arg) ?_ ?_ ?_ ?_
  · intro x hx
    obtain ⟨⟨r, hr, rfl⟩, _⟩ := (hmem x).mp hx
    rcases List.mem_append.mp hr with h | h
    · exact Or.inl (List.mem_map.mpr ⟨r, h, rfl⟩)
    · exact Or.inr (List.mem_map.mpr ⟨r, h, rfl⟩)
  · intro x hx hxP
    obtain ⟨r, hr, rfl⟩ := List.mem_map.mp hxP
    obtain ⟨q, hq, hq0, hqr⟩ := h3 r hr ((hmem _).mp hx).2
    exact ⟨q.arg, hinQ q hq hq0, hqr⟩
  · intro x hx y hy hxP hyP hxy
    obtain ⟨r1, hr1, rfl⟩ := List.mem_map.mp hxP
    obtain ⟨r2, hr2, rfl⟩ := List.mem_map.mp hyP
    have h0 := ((hmem _).mp hx).2
    obtain ⟨q, hq, hq1, hq2⟩ := h1 r1 hr1 r2 hr2 h0 hxy
    exact ⟨q.arg, hinQ q hq (by linarith), hq1, hq2⟩
  · intro x hx y hy hxQ hyQ hxy
    obtain ⟨q1, hq1, rfl⟩ := List.mem_map.mp hxQ
    obtain ⟨q2, hq2, rfl⟩ := List.mem_map.mp hyQ
    have h0 := ((hmem _).mp hx).2
    obtain ⟨r, hr, hr1, hr2⟩ := h2 q1 hq1 q2 hq2 h0 hxy
    exact ⟨r.arg, hinP r hr (by linarith), hr1, hr2⟩

/-- non-vacuity of the hypotheses of `lsf_sorted_alternate` / `lsf2poly_poly2lsf`: the polynomial and
root-contract hypotheses are those of `lsf_angles` (order-2 instance above); a sorted rearrangement `lsf`
of the positive angles always exists -/
example (L : List ℝ) : ∃ lsf : List ℝ, lsf.Perm L ∧ lsf.Pairwise (· ≤ ·) :=
  ⟨L.insertionSort (· ≤ ·), List.perm_insertionSort _ L, List.pairwise_insertionSort _ L⟩

/-- the slices of `lsf2poly`: `evens l = l[0::2]`, `odds l = l[1::2]` -/
example : evens [10, 11, 12, 13, 14] = [10, 12, 14] ∧ odds [10, 11, 12, 13, 14] = [11, 13] :=
  ⟨rfl, rfl⟩

/-- **`lsf2poly ∘ poly2lsf = id` through the sorted frequencies** (relative to the contract of
`numpy.roots` only): let `lsf` be the sorted list of the positive angles of the roots that `poly2lsf`
computes for the real minimum-phase polynomial `a = [1, c_1..c_p]` (hypotheses of `lsf_angles`).  Then
`lsf2poly lsf` — which forms `z = exp(i·lsf)`, assigns `rQ = z[0::2]`, `rP = z[1::2]`, appends the
conjugates, multiplies the linear factors (`numpy.poly`), re-inserts the fixed zeros `±1` and averages —
returns `a`.  The assignment by position is correct because of the alternation `lsf_sorted_alternate`;
`numpy.poly` does not depend on the order of the roots (`LsfRoundtripL.polyFromRoots_perm`). -/
theorem lsf2poly_poly2lsf (c : List ℂ) (hreal : ∀ j, star (nth c j) = nth c j)
    (hk : ∀ k ∈ poly2rc c, ‖k‖ < 1) (p : ℕ) (hp : c.length = p) (P Q rP rQ : List ℂ)
    (hP : polyMul P (if p % 2 = 1 then [1, 0, -1] else [1, -1]) = (lsfSplit ((1 : ℂ) :: c)).1)
    (hQ : polyMul Q (if p % 2 = 1 then [1] else [1, 1]) = (lsfSplit ((1 : ℂ) :: c)).2)
    (hrP : polyFromRoots rP = P) (hrQ : polyFromRoots rQ = Q) (lsf : List ℝ)
    (hperm : lsf.Perm (((rP ++ rQ).map Complex.arg).filter (fun θ => decide (0 < θ))))
    (hsorted : lsf.Pairwise (· ≤ ·)) :
    lsfRecombine
      ((evens lsf).map (fun θ : ℝ => Complex.exp (θ * Complex.I))
        ++ ((evens lsf).map (fun θ : ℝ => Complex.exp (θ * Complex.I))).map star)
      ((odds lsf).map (fun θ : ℝ => Complex.exp (θ * Complex.I))
        ++ ((odds lsf).map (fun θ : ℝ => Complex.exp (θ * Complex.I))).map star) p
      = (1 : ℂ) :: c := by
  obtain ⟨_, hndarg, hsort⟩ := lsf_angles c hreal hk p hp P Q rP rQ hP hQ hrP hrQ
  obtain ⟨_, hstrict, hrange⟩ := hsort lsf hperm hsorted
  obtain ⟨hunit, hnd, hcP, hcQ, _⟩ :=
    lsf_computed_roots_unit_distinct c hreal hk p hp P Q rP rQ hP hQ hrP hrQ
  have halt := lsf_sorted_alternate c hreal hk p hp P Q rP rQ hP hQ hrP hrQ lsf hperm hsorted
  have hsup : ∀ r ∈ rP ++ rQ, 0 < r.arg → r.arg ∈ lsf := by
    intro r hr h0
    rw [hperm.mem_iff, List.mem_filter, decide_eq_true_eq]
    exact ⟨List.mem_map.mpr ⟨r, hr, rfl⟩, h0⟩
  obtain ⟨hpQ, hpP⟩ :=
    slices_perm_roots rP rQ lsf hnd hndarg hunit hcP hcQ hstrict hrange hsup halt
  exact (lsf_roundtrip_algebra (two_ne_zero : (2 : ℂ) ≠ 0) ((1 : ℂ) :: c) p
    (by rw [List.length_cons, hp]) P Q _ _ hP hQ
    ((polyFromRoots_perm _ _ hpP).trans hrP) ((polyFromRoots_perm _ _ hpQ).trans hrQ)).1

end LsfInterlace

end SpecVerif.C11
