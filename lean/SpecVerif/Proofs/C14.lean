import SpecVerif.Proofs.Lemmas.LeastSquares
import SpecVerif.Proofs.Lemmas.Marple
import SpecVerif.Proofs.Lemmas.GaussJordan
import SpecVerif.Proofs.C09
import Mathlib.Tactic.IntervalCases
import Mathlib.Tactic.FinCases
import Mathlib.Tactic.NormNum
import SpecVerif.Proofs.Lemmas.CRatField
/-
  C14 — covariance (`arcovar`) and modified covariance (`modcovar`) least-squares AR estimation.

  Property theorems only (helper lemmas and the definitions `lsRes`, `lsEnergy`, `NormalEq`, `fwdErr`,
  `bwdErr`, `fwdEnergy`, `bwdEnergy`, `col0`, `colR`, `GramSystem` live in
  `Proofs/Lemmas/LeastSquares.lean`, namespace `SpecVerif.LSL`).

  The least-squares solver (`scipy.linalg.lstsq`) is a PARAMETER of the model with contract "returns a
  minimiser".  Sections 1–5 are therefore stated for ANY coefficient vector `a` that satisfies the
  normal equations of the data matrix (`NormalEq`: the residual is orthogonal to every regressor
  column); `lsFit_returns` / `lsFit_normalEq_of_solver` say what `lsFit` returns in terms of its `lstsq`
  call.

  Section 6 (end of the file) VERIFIES the exact instance of that parameter carried by the model, the
  Gauss–Jordan elimination of `Model/LinAlg.lean` (helpers: `Proofs/Lemmas/GaussJordan.lean`, namespace
  `SpecVerif.GJL`), for every field whose pivot test is lawful (`LawfulIsZero`: `isZero x = true ↔ x = 0`):
  `gjStep_sound` (one step is an invertible row transformation that creates the unit column),
  `solveMat_solves`, `solveVec_solves`, `inverse_right`, `lstsq_normal_equations` (soundness),
  `solveMat_succeeds_iff` (the elimination fails exactly on singular matrices).  With it the contract
  hypothesis of the theorems above is DISCHARGED: `lsFit_normalEq`, `lsFit_succeeds_iff`, `lsFit_unique`,
  `arcovar_normalEq` / `modcovar_normalEq` (any field with involution), `arcovar_least_squares` /
  `modcovar_least_squares` and the Marple stand-ins `arcovarMarple_least_squares` /
  `modcovarMarple_least_squares` (`ℝ`/`ℂ`): whatever `arcovar x p` returns satisfies the normal equations,
  `e` is the prediction-error energy at the returned coefficients, no coefficient vector has a smaller
  one, and every minimiser agrees with the returned coefficients.
-/
namespace SpecVerif.C14
open Finset SpecVerif SpecVerif.LSL

section Generic
variable {K : Type} [Field K] [StarRing K]

/-! ### 1–2. generic least squares -/

/-- the definitions used below, unfolded: residual of row `i`, energy, normal equations -/
theorem ls_defs (X1 : ℕ → K) (Xc : ℕ → ℕ → K) (r p : ℕ) (a : ℕ → K) :
    (∀ i, lsRes X1 Xc p a i = X1 i + ∑ j ∈ range p, Xc i j * a j) ∧
    lsEnergy X1 Xc r p a = ∑ i ∈ range r, lsRes X1 Xc p a i * star (lsRes X1 Xc p a i) ∧
    (NormalEq X1 Xc r p a ↔
      ∀ b, b < p → ∑ i ∈ range r, star (Xc i b) * (X1 i + ∑ j ∈ range p, Xc i j * a j) = 0) :=
  ⟨fun _ => rfl, rfl, Iff.rfl⟩

/-- **Pythagoras**: if `a` satisfies the normal equations of the `r × (1+p)` data matrix `[X1 | Xc]`,
then for every `a'`: `E(a') = E(a) + Σ_{i<r} |Σ_{j<p} Xc i j (a' j - a j)|²`. -/
theorem ls_pythagoras (X1 : ℕ → K) (Xc : ℕ → ℕ → K) (r p : ℕ) (a : ℕ → K)
    (h : ∀ b, b < p → ∑ i ∈ range r, star (Xc i b) * (X1 i + ∑ j ∈ range p, Xc i j * a j) = 0)
    (a' : ℕ → K) :
    lsEnergy X1 Xc r p a'
      = lsEnergy X1 Xc r p a
        + ∑ i ∈ range r, (∑ j ∈ range p, Xc i j * (a' j - a j))
            * star (∑ j ∈ range p, Xc i j * (a' j - a j)) :=
  pythagoras (X1 := X1) (Xc := Xc) (r := r) (p := p) (a := a) h a'

/-- **error formula**: at any solution `a` of the normal equations, `X1ᴴX1 + (X1ᴴXc) a = E(a)` — the
quantity `e` computed by `lsFit` is the energy of the residual. -/
theorem ls_error_formula (X1 : ℕ → K) (Xc : ℕ → ℕ → K) (r p : ℕ) (a : ℕ → K)
    (h : NormalEq X1 Xc r p a) :
    ∑ i ∈ range r, star (X1 i) * X1 i
        + ∑ j ∈ range p, (∑ i ∈ range r, star (X1 i) * Xc i j) * a j
      = lsEnergy X1 Xc r p a :=
  error_formula h

/-- a coefficient vector with zero residual satisfies the normal equations and has zero energy -/
theorem ls_zero_residual (X1 : ℕ → K) (Xc : ℕ → ℕ → K) (r p : ℕ) (a : ℕ → K)
    (h : ∀ i, i < r → lsRes X1 Xc p a i = 0) :
    NormalEq X1 Xc r p a ∧ lsEnergy X1 Xc r p a = 0 :=
  ⟨normalEq_of_res_zero h, lsEnergy_of_res_zero h⟩

/-! ### 3. the rows of the data matrices are the prediction errors -/

/-- definitions: forward error `f_t = x[t] + Σ_{j<p} a_j x[t-1-j]`, backward error of the window
starting at `s`: `b_s = x[s] + Σ_{j<p} conj(a_j) x[s+1+j]`, and their energies over `t = p..N-1`,
`s = 0..N-p-1` -/
theorem pred_defs (x : List K) (p : ℕ) (a : ℕ → K) :
    (∀ t, fwdErr x p a t = nth x t + ∑ j ∈ range p, a j * nth x (t - 1 - j)) ∧
    (∀ s, bwdErr x p a s = nth x s + ∑ j ∈ range p, star (a j) * nth x (s + 1 + j)) ∧
    fwdEnergy x p a = ∑ t ∈ Ico p x.length, fwdErr x p a t * star (fwdErr x p a t) ∧
    bwdEnergy x p a = ∑ s ∈ range (x.length - p), bwdErr x p a s * star (bwdErr x p a s) :=
  ⟨fun _ => rfl, fun _ => rfl, rfl, rfl⟩

/-- 'covariance' data matrix: the residual of row `i < N-p` is the forward prediction error at
`t = i+p` (so `t = p..N-1`; only in-range samples are read, see `C09.corrmtx_covariance_entry`). -/
theorem covariance_residual (x : List K) (p : ℕ) (a : ℕ → K) (i : ℕ) (hi : i < x.length - p) :
    lsRes (col0 (corrmtx x p .covariance)) (colR (corrmtx x p .covariance)) p a i
      = fwdErr x p a (i + p) := by
  unfold lsRes fwdErr col0 colR
  rw [mentryM_eq_mentry, (C09.corrmtx_covariance_entry x p i 0 hi (Nat.zero_le _)).1, Nat.sub_zero]
  congr 1
  apply Finset.sum_congr rfl
  intro j hj
  have hj' := mem_range.mp hj
  rw [mentryM_eq_mentry, (C09.corrmtx_covariance_entry x p i (j + 1) hi (by omega)).1, mul_comm]
  congr 2
  omega

/-- 'modified' data matrix, top block: rows `i < N-p` are again the forward errors at `t = i+p` -/
theorem modified_residual_fwd (x : List K) (p : ℕ) (a : ℕ → K) (i : ℕ) (hi : i < x.length - p) :
    lsRes (col0 (corrmtx x p .modified)) (colR (corrmtx x p .modified)) p a i
      = fwdErr x p a (i + p) := by
  unfold lsRes fwdErr col0 colR
  rw [mentryM_eq_mentry, (C09.corrmtx_modified_entry x p i 0 hi (Nat.zero_le _)).1, Nat.sub_zero]
  congr 1
  apply Finset.sum_congr rfl
  intro j hj
  have hj' := mem_range.mp hj
  rw [mentryM_eq_mentry, (C09.corrmtx_modified_entry x p i (j + 1) hi (by omega)).1, mul_comm]
  congr 2
  omega

/-- 'modified' data matrix, bottom block: row `N-p+i`, `i < N-p`, is the conjugated backward error of
the window `x[i..i+p]` -/
theorem modified_residual_bwd (x : List K) (p : ℕ) (a : ℕ → K) (i : ℕ) (hi : i < x.length - p) :
    lsRes (col0 (corrmtx x p .modified)) (colR (corrmtx x p .modified)) p a (x.length - p + i)
      = star (bwdErr x p a i) := by
  unfold lsRes bwdErr col0 colR
  rw [mentryM_eq_mentry, (C09.corrmtx_modified_entry x p i 0 hi (Nat.zero_le _)).2, Nat.add_zero,
    star_add, star_sum]
  congr 1
  apply Finset.sum_congr rfl
  intro j hj
  have hj' := mem_range.mp hj
  rw [mentryM_eq_mentry, (C09.corrmtx_modified_entry x p i (j + 1) hi (by omega)).2, star_mul',
    star_star, mul_comm]
  congr 3
  omega

/-- the energy of the 'covariance' least-squares problem is the forward prediction-error energy over
`t = p..N-1` -/
theorem covariance_energy (x : List K) (p : ℕ) (a : ℕ → K) :
    lsEnergy (col0 (corrmtx x p .covariance)) (colR (corrmtx x p .covariance)) (x.length - p) p a
      = fwdEnergy x p a := by
  unfold lsEnergy fwdEnergy
  rw [Finset.sum_Ico_eq_sum_range]
  apply Finset.sum_congr rfl
  intro i hi
  rw [covariance_residual x p a i (mem_range.mp hi), Nat.add_comm]

/-- the energy of the 'modified' least-squares problem (`2(N-p)` rows) is the sum of the forward and
backward prediction-error energies -/
theorem modified_energy (x : List K) (p : ℕ) (a : ℕ → K) :
    lsEnergy (col0 (corrmtx x p .modified)) (colR (corrmtx x p .modified)) (2 * (x.length - p)) p a
      = fwdEnergy x p a + bwdEnergy x p a := by
  unfold lsEnergy fwdEnergy bwdEnergy
  rw [two_mul, Finset.sum_range_add, Finset.sum_Ico_eq_sum_range]
  congr 1
  · apply Finset.sum_congr rfl
    intro i hi
    rw [modified_residual_fwd x p a i (mem_range.mp hi), Nat.add_comm]
  · apply Finset.sum_congr rfl
    intro i hi
    rw [modified_residual_bwd x p a i (mem_range.mp hi), star_star, mul_comm]

/-- the normal equations of the covariance problem in terms of the data: the forward prediction error
is orthogonal to every regressor `x[t-1-b]`, `b < p`, over `t = p..N-1` -/
theorem covariance_normalEq_iff (x : List K) (p : ℕ) (a : ℕ → K) :
    NormalEq (col0 (corrmtx x p .covariance)) (colR (corrmtx x p .covariance)) (x.length - p) p a
      ↔ ∀ b, b < p → ∑ t ∈ Ico p x.length, star (nth x (t - 1 - b)) * fwdErr x p a t = 0 := by
  unfold NormalEq
  apply forall_congr'
  intro b
  apply imp_congr_right
  intro hb
  have : ∑ i ∈ range (x.length - p), star (colR (corrmtx x p .covariance) i b)
        * lsRes (col0 (corrmtx x p .covariance)) (colR (corrmtx x p .covariance)) p a i
      = ∑ t ∈ Ico p x.length, star (nth x (t - 1 - b)) * fwdErr x p a t := by
    rw [Finset.sum_Ico_eq_sum_range]
    apply Finset.sum_congr rfl
    intro i hi
    have hi' := mem_range.mp hi
    rw [covariance_residual x p a i hi', Nat.add_comm p i]
    unfold colR
    rw [mentryM_eq_mentry, (C09.corrmtx_covariance_entry x p i (b + 1) hi' (by omega)).1]
    congr 3
    omega
  rw [this]

/-- the normal equations of the modified covariance problem in terms of the data: for every `b < p`,
`Σ_t conj(x[t-1-b]) f_t + Σ_s x[s+1+b] conj(b_s) = 0` -/
theorem modified_normalEq_iff (x : List K) (p : ℕ) (a : ℕ → K) :
    NormalEq (col0 (corrmtx x p .modified)) (colR (corrmtx x p .modified)) (2 * (x.length - p)) p a
      ↔ ∀ b, b < p → ∑ t ∈ Ico p x.length, star (nth x (t - 1 - b)) * fwdErr x p a t
          + ∑ s ∈ range (x.length - p), nth x (s + 1 + b) * star (bwdErr x p a s) = 0 := by
  unfold NormalEq
  apply forall_congr'
  intro b
  apply imp_congr_right
  intro hb
  have : ∑ i ∈ range (2 * (x.length - p)), star (colR (corrmtx x p .modified) i b)
        * lsRes (col0 (corrmtx x p .modified)) (colR (corrmtx x p .modified)) p a i
      = ∑ t ∈ Ico p x.length, star (nth x (t - 1 - b)) * fwdErr x p a t
        + ∑ s ∈ range (x.length - p), nth x (s + 1 + b) * star (bwdErr x p a s) := by
    rw [two_mul, Finset.sum_range_add, Finset.sum_Ico_eq_sum_range]
    congr 1
    · apply Finset.sum_congr rfl
      intro i hi
      have hi' := mem_range.mp hi
      rw [modified_residual_fwd x p a i hi', Nat.add_comm p i]
      unfold colR
      rw [mentryM_eq_mentry, (C09.corrmtx_modified_entry x p i (b + 1) hi' (by omega)).1]
      congr 3
      omega
    · apply Finset.sum_congr rfl
      intro i hi
      have hi' := mem_range.mp hi
      rw [modified_residual_bwd x p a i hi']
      unfold colR
      rw [mentryM_eq_mentry, (C09.corrmtx_modified_entry x p i (b + 1) hi' (by omega)).2,
        star_star]
      congr 2
      omega
  rw [this]

/-! ### 4. `lsFit`, `arcovar`, `modcovar` and the Marple variants -/
section Fit
variable [IsZero K]

/-- what `lsFit` returns: the coefficients are the answer of its `lstsq` call on `(-X_c, X_1)` — in
the exact instance the answer of the linear solver on the Gram system — and
`e = X₁ᴴX₁ + (X₁ᴴX_c) a`. -/
theorem lsFit_returns (X : Mat K) (rows p : ℕ) (a : List K) (e : K)
    (h : lsFit X rows p = some (a, e)) :
    lstsq (negXc X rows p) (rhsX1 X rows) rows p = some a ∧
    solveVec (matMul (conjT (negXc X rows p) rows p) (negXc X rows p) p rows p)
        (matVec (conjT (negXc X rows p) rows p) (rhsX1 X rows) p rows) p = some a ∧
    e = ∑ i ∈ range rows, star (col0 X i) * col0 X i
          + ∑ j ∈ range p, (∑ i ∈ range rows, star (col0 X i) * colR X i j) * nth a j := by
  obtain ⟨h1, h2⟩ := lsFit_eq_some h
  exact ⟨h1, (lstsq_unfold X rows p) ▸ h1, h2⟩

/-- the square linear system solved inside `lsFit` **is** the normal equations of `[X_1 | X_c]`: if
the linear solver's answer solves its system `(-X_c)ᴴ(-X_c) a = (-X_c)ᴴ X_1` (contract of the solver,
hypothesis), the returned coefficients satisfy the normal equations and `e` is the residual energy. -/
theorem lsFit_normalEq_of_solver (X : Mat K) (rows p : ℕ) (a : List K) (e : K)
    (h : lsFit X rows p = some (a, e)) (hsolve : GramSystem X rows p (nth a)) :
    NormalEq (col0 X) (colR X) rows p (nth a) ∧ e = lsEnergy (col0 X) (colR X) rows p (nth a) := by
  have hn := (normalEq_iff_gramSystem X rows p (nth a)).mpr hsolve
  refine ⟨hn, ?_⟩
  rw [(lsFit_eq_some h).2]
  exact error_formula hn

/-- **covariance method** (any field with involution): if `arcovar x p` returns `(a, e)` and `a`
satisfies the normal equations of the covariance data matrix (contract of the least-squares solver),
then `e` is the forward prediction-error energy at `a`, and the energy at any other `a'` exceeds it by
`Σ_t |Σ_j (a'_j - a_j) x[t-1-j]|²`. -/
theorem arcovar_error (x : List K) (p : ℕ) (a : List K) (e : K)
    (h : arcovar x p = some (a, e))
    (hne : NormalEq (col0 (corrmtx x p .covariance)) (colR (corrmtx x p .covariance))
      (x.length - p) p (nth a)) :
    e = fwdEnergy x p (nth a) ∧
    ∀ a' : ℕ → K, fwdEnergy x p a' = e + ∑ i ∈ range (x.length - p),
      lsDiff (colR (corrmtx x p .covariance)) p (nth a) a' i
        * star (lsDiff (colR (corrmtx x p .covariance)) p (nth a) a' i) := by
  have he : e = fwdEnergy x p (nth a) := by
    rw [(lsFit_eq_some h).2, ← covariance_energy]
    exact error_formula hne
  refine ⟨he, fun a' => ?_⟩
  rw [he, ← covariance_energy, ← covariance_energy]
  exact pythagoras hne a'

/-- **modified covariance method** (any field with involution): if `modcovar x p` returns `(a, e)`
and `a` satisfies the normal equations of the modified data matrix, then `e` is the sum of the forward
and backward prediction-error energies at `a`, with the Pythagoras identity for any other `a'`. -/
theorem modcovar_error (x : List K) (p : ℕ) (a : List K) (e : K)
    (h : modcovar x p = some (a, e))
    (hne : NormalEq (col0 (corrmtx x p .modified)) (colR (corrmtx x p .modified))
      (2 * (x.length - p)) p (nth a)) :
    e = fwdEnergy x p (nth a) + bwdEnergy x p (nth a) ∧
    ∀ a' : ℕ → K, fwdEnergy x p a' + bwdEnergy x p a' = e + ∑ i ∈ range (2 * (x.length - p)),
      lsDiff (colR (corrmtx x p .modified)) p (nth a) a' i
        * star (lsDiff (colR (corrmtx x p .modified)) p (nth a) a' i) := by
  have he : e = fwdEnergy x p (nth a) + bwdEnergy x p (nth a) := by
    rw [(lsFit_eq_some h).2, ← modified_energy]
    exact error_formula hne
  refine ⟨he, fun a' => ?_⟩
  rw [he, ← modified_energy, ← modified_energy]
  exact pythagoras hne a'

/-- `arcovar_marple` (specification-level model): succeeds exactly when `arcovar` does, with the same
coefficients and the error divided by the number `N-p` of prediction equations -/
theorem arcovarMarple_iff (x : List K) (p : ℕ) (a : List K) (e' : K) :
    arcovarMarple x p = some (a, e')
      ↔ ∃ e, arcovar x p = some (a, e) ∧ e' = e / ((x.length - p : ℕ) : K) := by
  unfold arcovarMarple
  cases h : arcovar x p with
  | none => simp
  | some ae =>
    obtain ⟨a0, e0⟩ := ae
    simp only [Option.map_some, Option.some.injEq, Prod.mk.injEq]
    constructor
    · rintro ⟨rfl, rfl⟩
      exact ⟨e0, ⟨rfl, rfl⟩, rfl⟩
    · rintro ⟨e, ⟨rfl, rfl⟩, rfl⟩
      exact ⟨rfl, rfl⟩

/-- `modcovar_marple` (specification-level model): the coefficients of `modcovar` and the error
divided by the number `2(N-p)` of forward and backward prediction equations -/
theorem modcovarMarple_iff (x : List K) (p : ℕ) (a : List K) (e' : K) :
    modcovarMarple x p = some (a, e')
      ↔ ∃ e, modcovar x p = some (a, e) ∧ e' = e / ((2 * (x.length - p) : ℕ) : K) := by
  unfold modcovarMarple
  cases h : modcovar x p with
  | none => simp
  | some ae =>
    obtain ⟨a0, e0⟩ := ae
    simp only [Option.map_some, Option.some.injEq, Prod.mk.injEq]
    constructor
    · rintro ⟨rfl, rfl⟩
      exact ⟨e0, ⟨rfl, rfl⟩, rfl⟩
    · rintro ⟨e, ⟨rfl, rfl⟩, rfl⟩
      exact ⟨rfl, rfl⟩

/-- Marple covariance, per-sample minimum: with a non-zero divisor `N-p` in `K`, the returned error
times `N-p` is the forward energy at the returned coefficients (which are those of `arcovar`). -/
theorem arcovarMarple_error (x : List K) (p : ℕ) (a : List K) (e' : K)
    (hN : ((x.length - p : ℕ) : K) ≠ 0)
    (h : arcovarMarple x p = some (a, e'))
    (hne : NormalEq (col0 (corrmtx x p .covariance)) (colR (corrmtx x p .covariance))
      (x.length - p) p (nth a)) :
    (∃ e, arcovar x p = some (a, e)) ∧ e' * ((x.length - p : ℕ) : K) = fwdEnergy x p (nth a) := by
  obtain ⟨e, h1, rfl⟩ := (arcovarMarple_iff x p a e').mp h
  refine ⟨⟨e, h1⟩, ?_⟩
  rw [div_mul_cancel₀ _ hN]
  exact (arcovar_error x p a e h1 hne).1

/-- Marple modified covariance, per-sample minimum -/
theorem modcovarMarple_error (x : List K) (p : ℕ) (a : List K) (e' : K)
    (hN : ((2 * (x.length - p) : ℕ) : K) ≠ 0)
    (h : modcovarMarple x p = some (a, e'))
    (hne : NormalEq (col0 (corrmtx x p .modified)) (colR (corrmtx x p .modified))
      (2 * (x.length - p)) p (nth a)) :
    (∃ e, modcovar x p = some (a, e)) ∧
    e' * ((2 * (x.length - p) : ℕ) : K) = fwdEnergy x p (nth a) + bwdEnergy x p (nth a) := by
  obtain ⟨e, h1, rfl⟩ := (modcovarMarple_iff x p a e').mp h
  refine ⟨⟨e, h1⟩, ?_⟩
  rw [div_mul_cancel₀ _ hN]
  exact (modcovar_error x p a e h1 hne).1

end Fit
end Generic
/-! ### optimality over `ℝ`, `ℂ`, any `RCLike` -/
section RC
variable {𝕜 : Type} [RCLike 𝕜]

/-- **a solution of the normal equations minimises the residual energy** (`ℝ`/`ℂ`): the energy is the
real number `Σ_i |res_i|²`, it is `≤` the energy at every `a'`, with equality exactly when `a'` gives
the same fitted values `X_c a' = X_c a`. -/
theorem ls_minimises (X1 : ℕ → 𝕜) (Xc : ℕ → ℕ → 𝕜) (r p : ℕ) (a : ℕ → 𝕜)
    (h : NormalEq X1 Xc r p a) (a' : ℕ → 𝕜) :
    lsEnergy X1 Xc r p a = ((∑ i ∈ range r, ‖lsRes X1 Xc p a i‖ ^ 2 : ℝ) : 𝕜) ∧
    ∑ i ∈ range r, ‖lsRes X1 Xc p a i‖ ^ 2 ≤ ∑ i ∈ range r, ‖lsRes X1 Xc p a' i‖ ^ 2 ∧
    (∑ i ∈ range r, ‖lsRes X1 Xc p a' i‖ ^ 2 = ∑ i ∈ range r, ‖lsRes X1 Xc p a i‖ ^ 2
      ↔ ∀ i, i < r → ∑ j ∈ range p, Xc i j * (a' j - a j) = 0) := by
  have hp := pythagorasR h a'
  unfold lsEnergyR at hp
  have hnn : ∀ i ∈ range r, 0 ≤ ‖lsDiff Xc p a a' i‖ ^ 2 := fun _ _ => by positivity
  refine ⟨lsEnergy_ofReal X1 Xc r p a, ?_, ?_⟩
  · rw [hp]
    exact le_add_of_nonneg_right (Finset.sum_nonneg hnn)
  · rw [hp, add_eq_left, Finset.sum_eq_zero_iff_of_nonneg hnn]
    constructor
    · intro h0 i hi
      exact norm_eq_zero.mp ((pow_eq_zero_iff two_ne_zero).mp (h0 i (mem_range.mpr hi)))
    · intro h0 i hi
      have : lsDiff Xc p a a' i = 0 := h0 i (mem_range.mp hi)
      rw [this, norm_zero]
      norm_num

/-- **characterisation of the minimisers** (`ℝ`/`ℂ`): `a` minimises the residual energy
`Σ_i |res_i|²` if and only if it satisfies the normal equations (the residual is orthogonal to every
regressor column). -/
theorem ls_minimiser_iff (X1 : ℕ → 𝕜) (Xc : ℕ → ℕ → 𝕜) (r p : ℕ) (a : ℕ → 𝕜) :
    (∀ a' : ℕ → 𝕜, ∑ i ∈ range r, ‖lsRes X1 Xc p a i‖ ^ 2 ≤ ∑ i ∈ range r, ‖lsRes X1 Xc p a' i‖ ^ 2)
      ↔ ∀ b, b < p → ∑ i ∈ range r, star (Xc i b) * lsRes X1 Xc p a i = 0 :=
  ⟨fun h => normalEq_of_minimiser h, fun h a' => (ls_minimises X1 Xc r p a h a').2.1⟩

/-- the real forward / forward+backward energies of the two data matrices -/
theorem covariance_energy_real (x : List 𝕜) (p : ℕ) (a : ℕ → 𝕜) :
    lsEnergyR (col0 (corrmtx x p .covariance)) (colR (corrmtx x p .covariance)) (x.length - p) p a
      = ∑ t ∈ Ico p x.length, ‖fwdErr x p a t‖ ^ 2 ∧
    lsEnergyR (col0 (corrmtx x p .modified)) (colR (corrmtx x p .modified)) (2 * (x.length - p)) p a
      = ∑ t ∈ Ico p x.length, ‖fwdErr x p a t‖ ^ 2
        + ∑ s ∈ range (x.length - p), ‖bwdErr x p a s‖ ^ 2 := by
  constructor
  · have h := covariance_energy x p a
    rw [lsEnergy_ofReal, fwdEnergy_ofReal, RCLike.ofReal_inj] at h
    exact h
  · have h := modified_energy x p a
    rw [lsEnergy_ofReal, fwdEnergy_ofReal, bwdEnergy_ofReal, ← RCLike.ofReal_add,
      RCLike.ofReal_inj] at h
    exact h

variable [IsZero 𝕜]

/-- **C14, covariance method**: if `arcovar x p` returns `(a, e)` and `a` satisfies the normal equations
(the forward error is orthogonal to every regressor — contract of the least-squares solver), then `e`
is the forward prediction-error energy `Σ_{t=p}^{N-1} |x[t] + Σ_j a_j x[t-1-j]|²`, and no coefficient
vector has a smaller one. -/
theorem arcovar_optimal (x : List 𝕜) (p : ℕ) (a : List 𝕜) (e : 𝕜)
    (h : arcovar x p = some (a, e))
    (hne : ∀ b, b < p →
      ∑ t ∈ Ico p x.length, star (nth x (t - 1 - b)) * fwdErr x p (nth a) t = 0) :
    e = ((∑ t ∈ Ico p x.length, ‖fwdErr x p (nth a) t‖ ^ 2 : ℝ) : 𝕜) ∧
    ∀ a' : ℕ → 𝕜, ∑ t ∈ Ico p x.length, ‖fwdErr x p (nth a) t‖ ^ 2
      ≤ ∑ t ∈ Ico p x.length, ‖fwdErr x p a' t‖ ^ 2 := by
  have hn := (covariance_normalEq_iff x p (nth a)).mpr hne
  refine ⟨?_, fun a' => ?_⟩
  · rw [(arcovar_error x p a e h hn).1]
    exact fwdEnergy_ofReal x p (nth a)
  · have := (ls_minimises _ _ _ _ _ hn a').2.1
    have e1 := (covariance_energy_real x p (nth a)).1
    have e2 := (covariance_energy_real x p a').1
    unfold lsEnergyR at e1 e2
    rw [e1, e2] at this
    exact this

/-- **C14, modified covariance method**: the same for the sum of the forward and backward
prediction-error energies. -/
theorem modcovar_optimal (x : List 𝕜) (p : ℕ) (a : List 𝕜) (e : 𝕜)
    (h : modcovar x p = some (a, e))
    (hne : ∀ b, b < p → ∑ t ∈ Ico p x.length, star (nth x (t - 1 - b)) * fwdErr x p (nth a) t
          + ∑ s ∈ range (x.length - p), nth x (s + 1 + b) * star (bwdErr x p (nth a) s) = 0) :
    e = ((∑ t ∈ Ico p x.length, ‖fwdErr x p (nth a) t‖ ^ 2
          + ∑ s ∈ range (x.length - p), ‖bwdErr x p (nth a) s‖ ^ 2 : ℝ) : 𝕜) ∧
    ∀ a' : ℕ → 𝕜, ∑ t ∈ Ico p x.length, ‖fwdErr x p (nth a) t‖ ^ 2
          + ∑ s ∈ range (x.length - p), ‖bwdErr x p (nth a) s‖ ^ 2
      ≤ ∑ t ∈ Ico p x.length, ‖fwdErr x p a' t‖ ^ 2
          + ∑ s ∈ range (x.length - p), ‖bwdErr x p a' s‖ ^ 2 := by
  have hn := (modified_normalEq_iff x p (nth a)).mpr hne
  refine ⟨?_, fun a' => ?_⟩
  · rw [(modcovar_error x p a e h hn).1, fwdEnergy_ofReal, bwdEnergy_ofReal, ← RCLike.ofReal_add]
    rfl
  · have := (ls_minimises _ _ _ _ _ hn a').2.1
    have e1 := (covariance_energy_real x p (nth a)).2
    have e2 := (covariance_energy_real x p a').2
    unfold lsEnergyR at e1 e2
    rw [e1, e2] at this
    exact this

/-- **C14 with the literal solver contract** ("`lstsq` returns a minimiser"): if `arcovar x p` returns
`(a, e)` and `a` minimises the forward prediction-error energy, then the forward error is orthogonal
to every regressor and `e` is that minimum. -/
theorem arcovar_of_minimiser (x : List 𝕜) (p : ℕ) (a : List 𝕜) (e : 𝕜)
    (h : arcovar x p = some (a, e))
    (hmin : ∀ a' : ℕ → 𝕜, ∑ t ∈ Ico p x.length, ‖fwdErr x p (nth a) t‖ ^ 2
      ≤ ∑ t ∈ Ico p x.length, ‖fwdErr x p a' t‖ ^ 2) :
    (∀ b, b < p → ∑ t ∈ Ico p x.length, star (nth x (t - 1 - b)) * fwdErr x p (nth a) t = 0) ∧
    e = ((∑ t ∈ Ico p x.length, ‖fwdErr x p (nth a) t‖ ^ 2 : ℝ) : 𝕜) := by
  have hn : NormalEq (col0 (corrmtx x p .covariance)) (colR (corrmtx x p .covariance))
      (x.length - p) p (nth a) := by
    apply normalEq_of_minimiser
    intro a'
    rw [(covariance_energy_real x p (nth a)).1, (covariance_energy_real x p a').1]
    exact hmin a'
  have hne := (covariance_normalEq_iff x p (nth a)).mp hn
  exact ⟨hne, (arcovar_optimal x p a e h hne).1⟩

/-- the same for `modcovar`: a minimiser of the forward + backward energy satisfies the
modified-covariance normal equations and the returned `e` is the minimum. -/
theorem modcovar_of_minimiser (x : List 𝕜) (p : ℕ) (a : List 𝕜) (e : 𝕜)
    (h : modcovar x p = some (a, e))
    (hmin : ∀ a' : ℕ → 𝕜, ∑ t ∈ Ico p x.length, ‖fwdErr x p (nth a) t‖ ^ 2
          + ∑ s ∈ range (x.length - p), ‖bwdErr x p (nth a) s‖ ^ 2
      ≤ ∑ t ∈ Ico p x.length, ‖fwdErr x p a' t‖ ^ 2
          + ∑ s ∈ range (x.length - p), ‖bwdErr x p a' s‖ ^ 2) :
    (∀ b, b < p → ∑ t ∈ Ico p x.length, star (nth x (t - 1 - b)) * fwdErr x p (nth a) t
          + ∑ s ∈ range (x.length - p), nth x (s + 1 + b) * star (bwdErr x p (nth a) s) = 0) ∧
    e = ((∑ t ∈ Ico p x.length, ‖fwdErr x p (nth a) t‖ ^ 2
          + ∑ s ∈ range (x.length - p), ‖bwdErr x p (nth a) s‖ ^ 2 : ℝ) : 𝕜) := by
  have hn : NormalEq (col0 (corrmtx x p .modified)) (colR (corrmtx x p .modified))
      (2 * (x.length - p)) p (nth a) := by
    apply normalEq_of_minimiser
    intro a'
    rw [(covariance_energy_real x p (nth a)).2, (covariance_energy_real x p a').2]
    exact hmin a'
  have hne := (modified_normalEq_iff x p (nth a)).mp hn
  exact ⟨hne, (modcovar_optimal x p a e h hne).1⟩

/-- **Marple covariance** (specification-level model): same coefficients as `arcovar`, and for `p < N`
the returned error is the minimum forward energy per prediction equation, `E_min/(N-p)`. -/
theorem arcovarMarple_optimal (x : List 𝕜) (p : ℕ) (hp : p < x.length) (a : List 𝕜) (e' : 𝕜)
    (h : arcovarMarple x p = some (a, e'))
    (hne : ∀ b, b < p →
      ∑ t ∈ Ico p x.length, star (nth x (t - 1 - b)) * fwdErr x p (nth a) t = 0) :
    (∃ e, arcovar x p = some (a, e)) ∧
    ((x.length - p : ℕ) : ℝ) ≠ 0 ∧
    e' = (((∑ t ∈ Ico p x.length, ‖fwdErr x p (nth a) t‖ ^ 2) / ((x.length - p : ℕ) : ℝ) : ℝ) : 𝕜) ∧
    ∀ a' : ℕ → 𝕜, ∑ t ∈ Ico p x.length, ‖fwdErr x p (nth a) t‖ ^ 2
      ≤ ∑ t ∈ Ico p x.length, ‖fwdErr x p a' t‖ ^ 2 := by
  obtain ⟨e, h1, rfl⟩ := (arcovarMarple_iff x p a e').mp h
  obtain ⟨he, hmin⟩ := arcovar_optimal x p a e h1 hne
  refine ⟨⟨e, h1⟩, ?_, ?_, hmin⟩
  · exact Nat.cast_ne_zero.mpr (by omega)
  · rw [he, RCLike.ofReal_div, RCLike.ofReal_natCast]

/-- **Marple modified covariance** (specification-level model): same coefficients as `modcovar`, and
the minimum of forward + backward energy per equation, `E_min/(2(N-p))`. -/
theorem modcovarMarple_optimal (x : List 𝕜) (p : ℕ) (hp : p < x.length) (a : List 𝕜) (e' : 𝕜)
    (h : modcovarMarple x p = some (a, e'))
    (hne : ∀ b, b < p → ∑ t ∈ Ico p x.length, star (nth x (t - 1 - b)) * fwdErr x p (nth a) t
          + ∑ s ∈ range (x.length - p), nth x (s + 1 + b) * star (bwdErr x p (nth a) s) = 0) :
    (∃ e, modcovar x p = some (a, e)) ∧
    ((2 * (x.length - p) : ℕ) : ℝ) ≠ 0 ∧
    e' = (((∑ t ∈ Ico p x.length, ‖fwdErr x p (nth a) t‖ ^ 2
          + ∑ s ∈ range (x.length - p), ‖bwdErr x p (nth a) s‖ ^ 2)
            / ((2 * (x.length - p) : ℕ) : ℝ) : ℝ) : 𝕜) ∧
    ∀ a' : ℕ → 𝕜, ∑ t ∈ Ico p x.length, ‖fwdErr x p (nth a) t‖ ^ 2
          + ∑ s ∈ range (x.length - p), ‖bwdErr x p (nth a) s‖ ^ 2
      ≤ ∑ t ∈ Ico p x.length, ‖fwdErr x p a' t‖ ^ 2
          + ∑ s ∈ range (x.length - p), ‖bwdErr x p a' s‖ ^ 2 := by
  obtain ⟨e, h1, rfl⟩ := (modcovarMarple_iff x p a e').mp h
  obtain ⟨he, hmin⟩ := modcovar_optimal x p a e h1 hne
  refine ⟨⟨e, h1⟩, ?_, ?_, hmin⟩
  · exact Nat.cast_ne_zero.mpr (by omega)
  · rw [he, RCLike.ofReal_div, RCLike.ofReal_natCast]

end RC

/-! ### 5. exact recovery of a noise-free sum of `p` exponentials -/
section Exact
variable {K : Type} [Field K] [StarRing K]

omit [StarRing K] in
/-- definitions: `IsExpSum x p z c` says `x_n = Σ_{m<p} c_m z_m^n` for `n < N`;
`charPoly p a w = w^p + Σ_{j<p} a_j w^{p-1-j}`, which for `w ≠ 0` is `w^p (1 + Σ_j a_j w^{-(j+1)})`,
so that it vanishes exactly when the AR polynomial `1 + Σ_j a_j z^{-(j+1)}` vanishes at `z = w`. -/
theorem exact_defs (x : List K) (p : ℕ) (z c : Fin p → K) (a : ℕ → K) :
    (IsExpSum x p z c ↔ ∀ n, n < x.length → nth x n = ∑ m, c m * z m ^ n) ∧
    (∀ w, charPoly p a w = w ^ p + ∑ j ∈ range p, a j * w ^ (p - 1 - j)) ∧
    (∀ w, w ≠ 0 →
      (charPoly p a w = 0 ↔ 1 + ∑ j ∈ range p, a j * (w⁻¹) ^ (j + 1) = 0)) := by
  refine ⟨Iff.rfl, fun _ => rfl, fun w hw => ?_⟩
  rw [charPoly_eq_inv_form p a w hw, mul_eq_zero]
  constructor
  · intro h
    exact h.resolve_left (pow_ne_zero _ hw)
  · intro h
    exact Or.inr h

omit [StarRing K] in
/-- the forward prediction error of noise-free data factors through the prediction polynomial:
`f_t = Σ_m c_m z_m^{t-p} q_a(z_m)` for `p ≤ t < N` -/
theorem exact_residual_formula (x : List K) (p : ℕ) (z c : Fin p → K) (hx : IsExpSum x p z c)
    (a : ℕ → K) (t : ℕ) (hpt : p ≤ t) (ht : t < x.length) :
    fwdErr x p a t = ∑ m, c m * z m ^ (t - p) * charPoly p a (z m) :=
  fwdErr_expSum hx a t hpt ht

/-- **exact fit**: if the prediction polynomial of `a` vanishes at every mode `z_m`, every forward
error vanishes; hence `a` satisfies the covariance normal equations and its forward energy is `0`
(it is optimal). -/
theorem exact_recovery_zero_residual (x : List K) (p : ℕ) (z c : Fin p → K)
    (hx : IsExpSum x p z c) (a : ℕ → K) (hq : ∀ m, charPoly p a (z m) = 0) :
    (∀ t, p ≤ t → t < x.length → fwdErr x p a t = 0) ∧
    NormalEq (col0 (corrmtx x p .covariance)) (colR (corrmtx x p .covariance)) (x.length - p) p a ∧
    fwdEnergy x p a = 0 := by
  have h0 := fwdErr_zero_of_roots hx a hq
  have hres : ∀ i, i < x.length - p →
      lsRes (col0 (corrmtx x p .covariance)) (colR (corrmtx x p .covariance)) p a i = 0 := by
    intro i hi
    rw [covariance_residual x p a i hi]
    exact h0 (i + p) (by omega) (by omega)
  refine ⟨h0, normalEq_of_res_zero hres, ?_⟩
  rw [← covariance_energy]
  exact lsEnergy_of_res_zero hres

/-- **exact fit, modified covariance**: for undamped modes (`conj z_m · z_m = 1`, complex
exponentials) the backward errors vanish as well, so `a` satisfies the modified-covariance normal
equations and the forward + backward energy is `0`. -/
theorem exact_recovery_zero_residual_modified (x : List K) (p : ℕ) (z c : Fin p → K)
    (hx : IsExpSum x p z c) (hu : ∀ m, star (z m) * z m = 1)
    (a : ℕ → K) (hq : ∀ m, charPoly p a (z m) = 0) :
    (∀ s, s + p < x.length → bwdErr x p a s = 0) ∧
    NormalEq (col0 (corrmtx x p .modified)) (colR (corrmtx x p .modified))
      (2 * (x.length - p)) p a ∧
    fwdEnergy x p a + bwdEnergy x p a = 0 := by
  have h0 := fwdErr_zero_of_roots hx a hq
  have hb := bwdErr_zero_of_roots hx hu a hq
  have hres : ∀ i, i < 2 * (x.length - p) →
      lsRes (col0 (corrmtx x p .modified)) (colR (corrmtx x p .modified)) p a i = 0 := by
    intro i hi
    by_cases hlt : i < x.length - p
    · rw [modified_residual_fwd x p a i hlt]
      exact h0 (i + p) (by omega) (by omega)
    · have e : i = x.length - p + (i - (x.length - p)) := by omega
      rw [e, modified_residual_bwd x p a _ (by omega), hb _ (by omega), star_zero]
  refine ⟨hb, normalEq_of_res_zero hres, ?_⟩
  rw [← modified_energy]
  exact lsEnergy_of_res_zero hres

omit [StarRing K] in
/-- **Vandermonde / uniqueness**: `p` distinct modes with non-zero amplitudes and at least `p`
prediction equations (`N - p ≥ p`).  Any `a` with zero forward residual annihilates every mode
(`q_a(z_m) = 0`), equals the coefficient vector of `∏_m (X - z_m)` on `j < p`, and its prediction
polynomial is `q_a(w) = ∏_m (w - z_m)`: its roots are exactly the `p` modes. -/
theorem exact_recovery (x : List K) (p : ℕ) (z c : Fin p → K) (hx : IsExpSum x p z c)
    (hN : p ≤ x.length - p) (hz : Function.Injective z) (hc : ∀ m, c m ≠ 0)
    (a : ℕ → K) (h0 : ∀ t, p ≤ t → t < x.length → fwdErr x p a t = 0) :
    (∀ m, charPoly p a (z m) = 0) ∧
    (∀ j, j < p → a j = prodCoeffs z j) ∧
    (∀ w, charPoly p a w = ∏ m, (w - z m)) ∧
    (∀ w, charPoly p a w = 0 ↔ ∃ m, w = z m) := by
  have hroots := roots_of_fwdErr_zero hx (by omega) hz hc a h0
  have hroots0 : ∀ m, charPoly p (prodCoeffs z) (z m) = 0 := by
    intro m
    rw [charPoly_prodCoeffs]
    exact Finset.prod_eq_zero (Finset.mem_univ m) (sub_self _)
  have huniq := coeffs_unique_of_roots hz a (prodCoeffs z) hroots hroots0
  have hprod : ∀ w, charPoly p a w = ∏ m, (w - z m) := by
    intro w
    rw [charPoly_congr huniq w, charPoly_prodCoeffs]
  refine ⟨hroots, huniq, hprod, fun w => ?_⟩
  rw [hprod w, Finset.prod_eq_zero_iff]
  constructor
  · rintro ⟨m, _, hm⟩
    exact ⟨m, sub_eq_zero.mp hm⟩
  · rintro ⟨m, rfl⟩
    exact ⟨m, Finset.mem_univ m, sub_self _⟩

omit [StarRing K] in
/-- existence: the coefficient vector of `∏_m (X - z_m)` has zero forward residual on noise-free data
(so the hypotheses of `exact_recovery` are satisfiable for every such signal) -/
theorem exact_recovery_exists (x : List K) (p : ℕ) (z c : Fin p → K) (hx : IsExpSum x p z c) :
    ∀ t, p ≤ t → t < x.length → fwdErr x p (prodCoeffs z) t = 0 := by
  apply fwdErr_zero_of_roots hx
  intro m
  rw [charPoly_prodCoeffs]
  exact Finset.prod_eq_zero (Finset.mem_univ m) (sub_self _)

end Exact

section ExactRC
variable {𝕜 : Type} [RCLike 𝕜]

/-- **C14, exact recovery by the covariance method** (`ℝ`/`ℂ`): for a noise-free sum of `p` distinct
modes with non-zero amplitudes and `N - p ≥ p`, ANY solution `a` of the covariance normal equations
(any least-squares minimiser) has zero forward error, is the coefficient vector of `∏_m (X - z_m)`,
and its prediction polynomial has exactly the roots `z_m`. -/
theorem covariance_exact_recovery (x : List 𝕜) (p : ℕ) (z c : Fin p → 𝕜) (hx : IsExpSum x p z c)
    (hN : p ≤ x.length - p) (hz : Function.Injective z) (hc : ∀ m, c m ≠ 0) (a : ℕ → 𝕜)
    (hne : ∀ b, b < p →
      ∑ t ∈ Ico p x.length, star (nth x (t - 1 - b)) * fwdErr x p a t = 0) :
    (∀ t, p ≤ t → t < x.length → fwdErr x p a t = 0) ∧
    (∀ j, j < p → a j = prodCoeffs z j) ∧
    (∀ w, charPoly p a w = 0 ↔ ∃ m, w = z m) := by
  have hn := (covariance_normalEq_iff x p a).mpr hne
  have hres0 : ∀ i, i < x.length - p →
      lsRes (col0 (corrmtx x p .covariance)) (colR (corrmtx x p .covariance)) p
        (prodCoeffs z) i = 0 := by
    intro i hi
    rw [covariance_residual x p _ i hi]
    exact exact_recovery_exists x p z c hx (i + p) (by omega) (by omega)
  have hres := res_zero_of_normalEq_of_zero_fit hn hres0
  have h0 : ∀ t, p ≤ t → t < x.length → fwdErr x p a t = 0 := by
    intro t hpt ht
    have := hres (t - p) (by omega)
    rw [covariance_residual x p a (t - p) (by omega), Nat.sub_add_cancel hpt] at this
    exact this
  obtain ⟨_, h2, _, h4⟩ := exact_recovery x p z c hx hN hz hc a h0
  exact ⟨h0, h2, h4⟩

/-- **C14, exact recovery by the modified covariance method** (`ℝ`/`ℂ`): the same for undamped modes
(`|z_m| = 1`, complex exponentials): any solution of the modified-covariance normal equations has zero
forward and backward errors, and its prediction polynomial has exactly the roots `z_m`. -/
theorem modified_exact_recovery (x : List 𝕜) (p : ℕ) (z c : Fin p → 𝕜) (hx : IsExpSum x p z c)
    (hN : p ≤ x.length - p) (hz : Function.Injective z) (hc : ∀ m, c m ≠ 0)
    (hu : ∀ m, star (z m) * z m = 1) (a : ℕ → 𝕜)
    (hne : ∀ b, b < p → ∑ t ∈ Ico p x.length, star (nth x (t - 1 - b)) * fwdErr x p a t
          + ∑ s ∈ range (x.length - p), nth x (s + 1 + b) * star (bwdErr x p a s) = 0) :
    (∀ t, p ≤ t → t < x.length → fwdErr x p a t = 0) ∧
    (∀ s, s + p < x.length → bwdErr x p a s = 0) ∧
    (∀ j, j < p → a j = prodCoeffs z j) ∧
    (∀ w, charPoly p a w = 0 ↔ ∃ m, w = z m) := by
  have hn := (modified_normalEq_iff x p a).mpr hne
  have hroots0 : ∀ m, charPoly p (prodCoeffs z) (z m) = 0 := by
    intro m
    rw [charPoly_prodCoeffs]
    exact Finset.prod_eq_zero (Finset.mem_univ m) (sub_self _)
  have hn0 := (exact_recovery_zero_residual_modified x p z c hx hu (prodCoeffs z) hroots0)
  have hres0 : ∀ i, i < 2 * (x.length - p) →
      lsRes (col0 (corrmtx x p .modified)) (colR (corrmtx x p .modified)) p
        (prodCoeffs z) i = 0 := by
    intro i hi
    by_cases hlt : i < x.length - p
    · rw [modified_residual_fwd x p _ i hlt]
      exact exact_recovery_exists x p z c hx (i + p) (by omega) (by omega)
    · have e : i = x.length - p + (i - (x.length - p)) := by omega
      rw [e, modified_residual_bwd x p _ _ (by omega), hn0.1 _ (by omega), star_zero]
  have hres := res_zero_of_normalEq_of_zero_fit hn hres0
  have h0 : ∀ t, p ≤ t → t < x.length → fwdErr x p a t = 0 := by
    intro t hpt ht
    have := hres (t - p) (by omega)
    rw [modified_residual_fwd x p a (t - p) (by omega), Nat.sub_add_cancel hpt] at this
    exact this
  obtain ⟨h1, h2, _, h4⟩ := exact_recovery x p z c hx hN hz hc a h0
  exact ⟨h0, (exact_recovery_zero_residual_modified x p z c hx hu a h1).1, h2, h4⟩

end ExactRC

/-! ### non-vacuity of the hypotheses -/
section Examples

/-- a zero test on `ℝ` for the examples (the executable instances are `CRat` / `CFloat`) -/
noncomputable local instance : IsZero ℝ := ⟨fun q => decide (q = 0)⟩

/-- hypotheses of `arcovar_error` / `arcovar_optimal` / `arcovarMarple_optimal`: on `x = [1,2,3,5]`,
`p = 1`, the model returns `a = -23/14`, `e = 3/14` (non-zero residual) and `a` satisfies the normal
equations. -/
example : arcovar ([1, 2, 3, 5] : List ℝ) 1 = some ([-23/14], 3/14) ∧
    (∀ b, b < 1 → ∑ t ∈ Ico 1 ([1, 2, 3, 5] : List ℝ).length,
      star (nth ([1, 2, 3, 5] : List ℝ) (t - 1 - b))
        * fwdErr [1, 2, 3, 5] 1 (nth [-23/14]) t = 0) := by
  constructor
  · simp [arcovar, lsFit, lstsq, solveVec, solveMat, gjStep, conjT, matMul, matVec, corrmtx,
      mentryM, vec, nth, sumR, isZero, List.range_succ, Finset.sum_range_succ]
    norm_num
  · intro b hb
    have : b = 0 := by omega
    subst this
    simp [fwdErr, nth, Finset.sum_Ico_eq_sum_range, Finset.sum_range_succ]
    norm_num

/-- hypotheses of `modcovar_error` / `modcovar_optimal` / `modcovarMarple_optimal`: on
`x = [1,2,3,5]`, `p = 1`, the model returns `a = -23/26`, `e = 147/13`, and `a` satisfies the
modified-covariance normal equations. -/
example : modcovar ([1, 2, 3, 5] : List ℝ) 1 = some ([-23/26], 147/13) ∧
    (∀ b, b < 1 → ∑ t ∈ Ico 1 ([1, 2, 3, 5] : List ℝ).length,
        star (nth ([1, 2, 3, 5] : List ℝ) (t - 1 - b)) * fwdErr [1, 2, 3, 5] 1 (nth [-23/26]) t
      + ∑ s ∈ range (([1, 2, 3, 5] : List ℝ).length - 1),
        nth ([1, 2, 3, 5] : List ℝ) (s + 1 + b)
          * star (bwdErr [1, 2, 3, 5] 1 (nth [-23/26]) s) = 0) := by
  constructor
  · simp [modcovar, lsFit, lstsq, solveVec, solveMat, gjStep, conjT, matMul, matVec, corrmtx,
      mentryM, vec, nth, sumR, isZero, List.range_succ, Finset.sum_range_succ]
    norm_num
  · intro b hb
    have : b = 0 := by omega
    subst this
    simp [fwdErr, bwdErr, nth, Finset.sum_Ico_eq_sum_range, Finset.sum_range_succ]
    norm_num

/-- hypotheses of `exact_recovery`: `x_n = 1 + 2^n` (`N = 5`), `p = 2`, modes `1, 2`,
`a = (-3, 2)` (`(w-1)(w-2) = w² - 3w + 2`) has zero forward residual. -/
example : IsExpSum ([2, 3, 5, 9, 17] : List ℝ) 2 ![1, 2] ![1, 1] ∧
    2 ≤ ([2, 3, 5, 9, 17] : List ℝ).length - 2 ∧
    Function.Injective (![1, 2] : Fin 2 → ℝ) ∧ (∀ m, (![1, 1] : Fin 2 → ℝ) m ≠ 0) ∧
    (∀ t, 2 ≤ t → t < ([2, 3, 5, 9, 17] : List ℝ).length →
      fwdErr ([2, 3, 5, 9, 17] : List ℝ) 2 (nth [-3, 2]) t = 0) := by
  refine ⟨?_, by simp, ?_, ?_, ?_⟩
  · intro n hn
    simp only [List.length_cons, List.length_nil] at hn
    interval_cases n <;> simp [nth] <;> norm_num
  · intro i j h
    fin_cases i <;> fin_cases j <;> simp_all
  · intro m
    fin_cases m <;> simp
  · intro t h1 ht
    simp only [List.length_cons, List.length_nil] at ht
    interval_cases t <;> simp [fwdErr, nth, Finset.sum_range_succ] <;> norm_num

/-- hypotheses of `modified_exact_recovery` (undamped modes): `x_n = 1 + (-1)^n`, modes `1, -1` of
unit modulus. -/
example : IsExpSum ([2, 0, 2, 0, 2] : List ℝ) 2 ![1, -1] ![1, 1] ∧
    Function.Injective (![1, -1] : Fin 2 → ℝ) ∧ (∀ m, (![1, 1] : Fin 2 → ℝ) m ≠ 0) ∧
    (∀ m, star ((![1, -1] : Fin 2 → ℝ) m) * (![1, -1] : Fin 2 → ℝ) m = 1) := by
  refine ⟨?_, ?_, ?_, ?_⟩
  · intro n hn
    simp only [List.length_cons, List.length_nil] at hn
    interval_cases n <;> simp [nth] <;> norm_num
  · intro i j h
    fin_cases i <;> fin_cases j <;> simp_all
    all_goals norm_num at h
  · intro m
    fin_cases m <;> simp
  · intro m
    fin_cases m <;> simp

end Examples

/-! ### The transliterated Marple recursions (`Model/Marple.lean`)

`arcovarMarpleRec` / `modcovarMarpleRec` are statement-by-statement transliterations of
`arcovar_marple` / `modcovar_marple`.

  ┌───────────────────────────────────────────────────────────────────────────────────────────────┐
  │ NOT PROVED: the general equality                                                              │
  │     `arcovarMarpleRec x p = arcovarMarple x p`,  `modcovarMarpleRec x p = modcovarMarple x p` │
  │ ("for every record with a non-singular least-squares problem Marple's fast recursion returns  │
  │ the least-squares coefficients and the minimum per sample").  That statement is Marple's      │
  │ derivation (Digital Spectral Analysis, app. 8.C / 8.D); it is not formalised here.  It is     │
  │ TESTED in exact rational arithmetic by `_py/marple_diff.py` (b): rational equality of the two │
  │ driver commands on ≥ 400 random dyadic records per estimator and exhaustively on every record │
  │ over a small alphabet (N ≤ 6), and kernel-checked below on four concrete inputs.              │
  └───────────────────────────────────────────────────────────────────────────────────────────────┘

What IS proved below holds for every scalar type carrying the operation classes of the model (no
algebraic law is used; in particular for `CRat` and for `CFloat`): shape of the result, the entry
guards, and the order-0 value. -/

section MarpleRec
variable {S : Type} [Add S] [Sub S] [Mul S] [Div S] [Neg S] [OfNat S 0] [OfNat S 1] [NatCast S]
  [Conj S] [IsZero S]

/-- whenever the transliterated `arcovar_marple` returns, it returns exactly `p` coefficients
(`AF[:order]`; the work array keeps its length `N ≥ p` through both halves of every iteration) -/
theorem arcovarMarpleRec_length (x : List S) (p : ℕ) (a : List S) (e : S)
    (h : arcovarMarpleRec x p = some (a, e)) : a.length = p := by
  unfold arcovarMarpleRec at h
  split at h
  · rename_i r hr
    simp only [Option.some.injEq] at h
    subst h
    exact MarpleL.arcovarMarpleCore_length hr
  · exact absurd h (by simp)

/-- entry guards: the transliterated `arcovar_marple` returns only for a non-empty record with
`p ≤ N` (`assert len(x) >= order`; `x[0]` of an empty record is an `IndexError`) -/
theorem arcovarMarpleRec_domain (x : List S) (p : ℕ) (r : List S × S)
    (h : arcovarMarpleRec x p = some r) : p ≤ x.length ∧ 0 < x.length := by
  unfold arcovarMarpleRec arcovarMarpleCore at h
  simp only at h
  by_cases h1 : x.length < p
  · simp [h1] at h
  · by_cases h2 : x.length = 0
    · by_cases hp : 0 < p <;> simp [h2, hp] at h
    · omega

/-- `order == 0`: no recursion, the signal power `Σ|x|²/N` is returned with no coefficient -/
theorem arcovarMarpleRec_order_zero (x : List S) (hx : 0 < x.length) :
    arcovarMarpleRec x 0
      = some ([], sumR x.length (fun k => abs2 (nth x k)) / ((x.length : ℕ) : S)) := by
  have h2 : x.length ≠ 0 := by omega
  simp [arcovarMarpleRec, arcovarMarpleCore, h2]

variable [ReOrd S]

/-- whenever the transliterated `modcovar_marple` returns, it returns exactly `p` coefficients -/
theorem modcovarMarpleRec_length (x : List S) (p : ℕ) (a : List S) (e : S)
    (h : modcovarMarpleRec x p = some (a, e)) : a.length = p := by
  unfold modcovarMarpleRec at h
  split at h
  · rename_i r hr
    simp only [Option.some.injEq] at h
    subst h
    exact MarpleL.modcovarMarpleCore_length hr
  · exact absurd h (by simp)

/-- entry guards of the transliterated `modcovar_marple`: non-empty record, `p ≤ N` -/
theorem modcovarMarpleRec_domain (x : List S) (p : ℕ) (r : List S × S)
    (h : modcovarMarpleRec x p = some r) : p ≤ x.length ∧ 0 < x.length := by
  unfold modcovarMarpleRec modcovarMarpleCore at h
  simp only at h
  by_cases h1 : x.length = 0
  · simp [h1] at h
  · by_cases h2 : x.length < p
    · simp [h1, h2] at h
    · omega

/-- `IP == 0`: `(.5*R1 + R2 + R3)/N` with `R1 = Σ_{0<k<N-1} 2|x_k|²`, `R2 = |x_0|²`, `R3 = |x_{N-1}|²` -/
theorem modcovarMarpleRec_order_zero (x : List S) (hx : 0 < x.length) :
    modcovarMarpleRec x 0
      = some ([], (half2 * sumR (x.length - 2) (fun j => two2 * abs2 (nth x (j + 1)))
                    + abs2 (nth x 0) + abs2 (nth x (x.length - 1))) / ((x.length : ℕ) : S)) := by
  have h2 : x.length ≠ 0 := by omega
  simp [modcovarMarpleRec, modcovarMarpleCore, h2]

end MarpleRec

/-- order 0, every field with involution: the transliterated `arcovar_marple` and the least-squares
specification agree (`Σ|x|²/N`, no coefficient) — the only case of "recursion = least squares" that is
proved for all inputs -/
theorem arcovarMarpleRec_order_zero_eq_spec {K : Type} [Field K] [StarRing K] [IsZero K]
    (x : List K) (hx : 0 < x.length) :
    arcovarMarpleRec x 0 = arcovarMarple x 0 := by
  rw [arcovarMarpleRec_order_zero x hx]
  simp only [arcovarMarple, arcovar, lsFit, lstsq, solveVec, solveMat, Nat.sub_zero]
  simp only [vec, List.range_zero, List.map_nil, List.foldl_nil, Option.map_some, sumR, add_zero]
  congr 2
  rw [sumR_eq_sum, sumR_eq_sum]
  congr 1
  apply Finset.sum_congr rfl
  intro i hi
  have hi' : i < x.length := Finset.mem_range.mp hi
  simp [abs2, corrmtx, mentryM, nth, vec, hi', mul_comm]

/-- hypotheses of `arcovarMarpleRec_order_zero_eq_spec` are satisfiable and the common value is the
mean power: `x = (1, 2i)` over the Gaussian rationals gives `5/2` -/
example : arcovarMarpleRec ([⟨1, 0⟩, ⟨0, 2⟩] : List CRat) 0 = some ([], ⟨5 / 2, 0⟩) ∧
    arcovarMarple ([⟨1, 0⟩, ⟨0, 2⟩] : List CRat) 0 = some ([], ⟨5 / 2, 0⟩) := by
  decide +kernel

/-- a quirk of `modcovar_marple` that the transliteration reproduces: for a ONE-sample record and
`IP = 0` the code adds `|X[0]|²` and `|X[N-1]|²`, which are the same sample, and returns `2|x₀|²`
where the least-squares specification (and `arcovar_marple`) give `|x₀|²`.  For `N ≥ 2` the two agree
(second conjunct: `N = 2`). -/
example : modcovarMarpleRec ([⟨3, 0⟩] : List CRat) 0 = some ([], ⟨18, 0⟩) ∧
    modcovarMarple ([⟨3, 0⟩] : List CRat) 0 = some ([], ⟨9, 0⟩) ∧
    modcovarMarpleRec ([⟨3, 0⟩, ⟨1, 0⟩] : List CRat) 0 = modcovarMarple ([⟨3, 0⟩, ⟨1, 0⟩] : List CRat) 0 := by
  decide +kernel

/-! Concrete exact instances of "recursion = least squares", checked by the kernel over the Gaussian
rationals `CRat` (real record: zero imaginary parts; complex record).  They are instances, not the
general theorem (see the box above). -/

/-- real record `x = (1,2,3,5,4,-1)`, `p = 2`: the covariance recursion returns the least-squares
solution `a = (-583/257, 511/257)` and the minimum per sample `439/257` -/
example :
    arcovarMarpleRec ([⟨1, 0⟩, ⟨2, 0⟩, ⟨3, 0⟩, ⟨5, 0⟩, ⟨4, 0⟩, ⟨-1, 0⟩] : List CRat) 2
      = arcovarMarple ([⟨1, 0⟩, ⟨2, 0⟩, ⟨3, 0⟩, ⟨5, 0⟩, ⟨4, 0⟩, ⟨-1, 0⟩] : List CRat) 2 ∧
    arcovarMarple ([⟨1, 0⟩, ⟨2, 0⟩, ⟨3, 0⟩, ⟨5, 0⟩, ⟨4, 0⟩, ⟨-1, 0⟩] : List CRat) 2
      = some ([⟨-583 / 257, 0⟩, ⟨511 / 257, 0⟩], ⟨439 / 257, 0⟩) := by
  decide +kernel

/-- the same record through the modified covariance recursion: `a = (-100/83, 52/83)`, `775/332` -/
example :
    modcovarMarpleRec ([⟨1, 0⟩, ⟨2, 0⟩, ⟨3, 0⟩, ⟨5, 0⟩, ⟨4, 0⟩, ⟨-1, 0⟩] : List CRat) 2
      = modcovarMarple ([⟨1, 0⟩, ⟨2, 0⟩, ⟨3, 0⟩, ⟨5, 0⟩, ⟨4, 0⟩, ⟨-1, 0⟩] : List CRat) 2 ∧
    modcovarMarple ([⟨1, 0⟩, ⟨2, 0⟩, ⟨3, 0⟩, ⟨5, 0⟩, ⟨4, 0⟩, ⟨-1, 0⟩] : List CRat) 2
      = some ([⟨-100 / 83, 0⟩, ⟨52 / 83, 0⟩], ⟨775 / 332, 0⟩) := by
  decide +kernel

/-- complex record `x = (1+i, 2-i, -1+2i, 3, 1-2i, i)`, `p = 2`, covariance recursion:
`a = ((4+55i)/117, (-42-40i)/117)`, minimum per sample `358/117` -/
example :
    arcovarMarpleRec ([⟨1, 1⟩, ⟨2, -1⟩, ⟨-1, 2⟩, ⟨3, 0⟩, ⟨1, -2⟩, ⟨0, 1⟩] : List CRat) 2
      = arcovarMarple ([⟨1, 1⟩, ⟨2, -1⟩, ⟨-1, 2⟩, ⟨3, 0⟩, ⟨1, -2⟩, ⟨0, 1⟩] : List CRat) 2 ∧
    arcovarMarple ([⟨1, 1⟩, ⟨2, -1⟩, ⟨-1, 2⟩, ⟨3, 0⟩, ⟨1, -2⟩, ⟨0, 1⟩] : List CRat) 2
      = some ([⟨4 / 117, 55 / 117⟩, ⟨-14 / 39, -40 / 117⟩], ⟨358 / 117, 0⟩) := by
  decide +kernel

/-- the same complex record through the modified covariance recursion -/
example :
    modcovarMarpleRec ([⟨1, 1⟩, ⟨2, -1⟩, ⟨-1, 2⟩, ⟨3, 0⟩, ⟨1, -2⟩, ⟨0, 1⟩] : List CRat) 2
      = modcovarMarple ([⟨1, 1⟩, ⟨2, -1⟩, ⟨-1, 2⟩, ⟨3, 0⟩, ⟨1, -2⟩, ⟨0, 1⟩] : List CRat) 2 ∧
    modcovarMarple ([⟨1, 1⟩, ⟨2, -1⟩, ⟨-1, 2⟩, ⟨3, 0⟩, ⟨1, -2⟩, ⟨0, 1⟩] : List CRat) 2
      = some ([⟨-27 / 1487, 738 / 1487⟩, ⟨-511 / 1487, -504 / 1487⟩], ⟨17667 / 5948, 0⟩) := by
  decide +kernel

/-- an exit: the constant record is fitted exactly at order 1, the order-2 normal equations are
singular, and the recursion stops at the reciprocal of the zero order-1 error energy -/
example :
    arcovarMarpleRec ([⟨1, 0⟩, ⟨1, 0⟩, ⟨1, 0⟩, ⟨1, 0⟩, ⟨1, 0⟩] : List CRat) 2 = none ∧
    arcovarMarple ([⟨1, 0⟩, ⟨1, 0⟩, ⟨1, 0⟩, ⟨1, 0⟩, ⟨1, 0⟩] : List CRat) 2 = none ∧
    arcovarMarpleRec ([⟨1, 0⟩, ⟨1, 0⟩, ⟨1, 0⟩, ⟨1, 0⟩, ⟨1, 0⟩] : List CRat) 1
      = some ([⟨-1, 0⟩], ⟨0, 0⟩) := by
  decide +kernel

/-- the dead reciprocal of the last order update (see `covOrderUpdate`): `x[2..]` of
`(5,1,2,4,8,16)` obeys `x_t = 2 x_{t-1}` exactly, so `pf = 0` on entry of the last order update, yet
the order-2 problem has full rank and the recursion returns its solution `a = (-2, 0)`, error `0` -/
example :
    arcovarMarpleRec ([⟨5, 0⟩, ⟨1, 0⟩, ⟨2, 0⟩, ⟨4, 0⟩, ⟨8, 0⟩, ⟨16, 0⟩] : List CRat) 2
      = some ([⟨-2, 0⟩, ⟨0, 0⟩], ⟨0, 0⟩) ∧
    arcovarMarple ([⟨5, 0⟩, ⟨1, 0⟩, ⟨2, 0⟩, ⟨4, 0⟩, ⟨8, 0⟩, ⟨16, 0⟩] : List CRat) 2
      = some ([⟨-2, 0⟩, ⟨0, 0⟩], ⟨0, 0⟩) := by
  decide +kernel

/-! ### 6. the model's linear solver is verified: the solver contract discharged

`LawfulIsZero K` : the pivot test of the model decides `x = 0` (true for the exact instance `CRat`,
whose test is `re == 0 && im == 0`; stated here for any field with a lawful test). -/
section Solver
open SpecVerif.GJL
variable {K : Type} [Field K] [IsZero K] [LawfulIsZero K]

/-- **one Gauss–Jordan step is sound** (`n × w` matrix, `col < n ≤ w`): if `gjStep` returns `M'` then
(a) `M'` has the same null space as `M` — `M'` is `M` times an invertible matrix from the left —,
(b) column `col` of `M'` is the unit vector `e_col`, and (c) if the columns `< col` of `M` were the unit
columns `e_0 … e_{col-1}` they still are in `M'`. -/
theorem gjStep_sound (n w col : ℕ) (M M' : Mat K) (hcn : col < n) (hnw : n ≤ w)
    (h : gjStep n w M col = some M') :
    (∀ v : ℕ → K, (∀ i, i < n → ∑ j ∈ range w, mentryM M' i j * v j = 0)
        ↔ (∀ i, i < n → ∑ j ∈ range w, mentryM M i j * v j = 0)) ∧
    (∀ i, i < n → mentryM M' i col = if i = col then 1 else 0) ∧
    ((∀ i, i < n → ∀ j, j < col → mentryM M i j = if i = j then 1 else 0) →
      ∀ i, i < n → ∀ j, j < col → mentryM M' i j = if i = j then 1 else 0) := by
  obtain ⟨p, hcp, hpn, hpz, hE⟩ := gjStep_some h
  have hpiv : mentryM M p col ≠ 0 := (isZero_false_iff _).mp hpz
  refine ⟨fun v => nullVec_step hcn hpn hpiv hE v, pivotCol_step (by omega) hpiv hE, ?_⟩
  intro hU i hi j hj
  exact unitCols_step (by omega) hcp hpn hpiv hE hU i hi j (by omega)

/-- **a step fails only on a column that vanishes at and below the diagonal** -/
theorem gjStep_fails (n w col : ℕ) (M : Mat K) (h : gjStep n w M col = none) :
    ∀ i, col ≤ i → i < n → mentryM M i col = 0 :=
  fun i hci hin => (LawfulIsZero.isZero_iff _).mp (gjStep_none h i hci hin)

/-- **`solveMat` is sound**: a returned `X` satisfies `A X = B` (`A` is `n × n`, `B` and `X` are `n × m`) -/
theorem solveMat_solves (A B : Mat K) (n m : ℕ) (X : Mat K) (h : solveMat A B n m = some X) :
    ∀ i, i < n → ∀ j, j < m → ∑ k ∈ range n, mentryM A i k * mentryM X k j = mentryM B i j :=
  solveMat_sound h

/-- **`solveMat` succeeds exactly on nonsingular matrices**: it returns a solution iff `A v = 0` only
for `v = 0` (whatever the right-hand side `B`) -/
theorem solveMat_succeeds_iff (A B : Mat K) (n m : ℕ) :
    (∃ X, solveMat A B n m = some X) ↔
      ∀ v : ℕ → K, (∀ i, i < n → ∑ k ∈ range n, mentryM A i k * v k = 0) → ∀ k, k < n → v k = 0 :=
  ⟨fun ⟨_, h⟩ v hv => solveMat_kernel_trivial h v hv, solveMat_complete A B n m⟩

/-- **`solveVec` is sound**: `A v = b` -/
theorem solveVec_solves (A : Mat K) (b : List K) (n : ℕ) (v : List K) (h : solveVec A b n = some v) :
    v.length = n ∧ ∀ i, i < n → ∑ k ∈ range n, mentryM A i k * nth v k = nth b i := by
  refine ⟨?_, solveVec_sound h⟩
  unfold solveVec at h
  simp only [Option.map_eq_some_iff] at h
  obtain ⟨X, _, rfl⟩ := h
  exact vec_length _ _

/-- **`inverse` is sound**: `A · inverse A = I` -/
theorem inverse_right (A : Mat K) (n : ℕ) (Ai : Mat K) (h : inverse A n = some Ai) :
    ∀ i, i < n → ∀ j, j < n →
      ∑ k ∈ range n, mentryM A i k * mentryM Ai k j = if i = j then 1 else 0 :=
  inverse_sound h

variable [StarRing K]

/-- **`lstsq` solves the normal equations** `XᴴX a = Xᴴ b` of the `r × c` problem `min ‖b - X a‖²` -/
theorem lstsq_normal_equations (X : Mat K) (b : List K) (r c : ℕ) (a : List K)
    (h : lstsq X b r c = some a) :
    ∀ k, k < c →
      ∑ l ∈ range c, (∑ i ∈ range r, star (mentryM X i k) * mentryM X i l) * nth a l
        = ∑ i ∈ range r, star (mentryM X i k) * nth b i :=
  lstsq_sound h

/-- **`lsFit` without solver hypothesis**: whatever it returns satisfies the normal equations of
`[X_1 | X_c]`, and `e` is the residual energy there. -/
theorem lsFit_normalEq (X : Mat K) (rows p : ℕ) (a : List K) (e : K)
    (h : lsFit X rows p = some (a, e)) :
    NormalEq (col0 X) (colR X) rows p (nth a) ∧ e = lsEnergy (col0 X) (colR X) rows p (nth a) :=
  lsFit_sound h

/-- **`lsFit` succeeds exactly when the Gram matrix `X_cᴴX_c` is nonsingular** (the condition `GramInj`
of C04, section 8; over `ℝ`/`ℂ`: full column rank of `X_c`) -/
theorem lsFit_succeeds_iff (X : Mat K) (rows p : ℕ) :
    (∃ a e, lsFit X rows p = some (a, e)) ↔
      ∀ d : ℕ → K,
        (∀ b, b < p → ∑ i ∈ range rows, star (colR X i b) * ∑ j ∈ range p, colR X i j * d j = 0) →
          ∀ j, j < p → d j = 0 :=
  lsFit_some_iff X rows p

/-- **the returned coefficients are the only solution of the normal equations**, and there are `p` of
them -/
theorem lsFit_unique (X : Mat K) (rows p : ℕ) (a : List K) (e : K)
    (h : lsFit X rows p = some (a, e)) :
    a.length = p ∧
    ∀ a' : ℕ → K, NormalEq (col0 X) (colR X) rows p a' → ∀ j, j < p → a' j = nth a j :=
  ⟨lsFit_length' h, lsFit_solution_unique h⟩

/-- **covariance method, any field with involution, no solver hypothesis**: if `arcovar x p` returns
`(a, e)` then the forward prediction error at `a` is orthogonal to every regressor (normal equations),
`e` is the forward prediction-error energy at `a`, the energy at any `a'` exceeds it by
`Σ_t |Σ_j (a'_j - a_j) x[t-1-j]|²`, and `a` is the only solution of the normal equations. -/
theorem arcovar_normalEq (x : List K) (p : ℕ) (a : List K) (e : K)
    (h : arcovar x p = some (a, e)) :
    (∀ b, b < p → ∑ t ∈ Ico p x.length, star (nth x (t - 1 - b)) * fwdErr x p (nth a) t = 0) ∧
    e = fwdEnergy x p (nth a) ∧
    (∀ a' : ℕ → K, fwdEnergy x p a' = e + ∑ i ∈ range (x.length - p),
      lsDiff (colR (corrmtx x p .covariance)) p (nth a) a' i
        * star (lsDiff (colR (corrmtx x p .covariance)) p (nth a) a' i)) ∧
    (∀ a' : ℕ → K,
      (∀ b, b < p → ∑ t ∈ Ico p x.length, star (nth x (t - 1 - b)) * fwdErr x p a' t = 0) →
        ∀ j, j < p → a' j = nth a j) := by
  have hn := (lsFit_sound h).1
  obtain ⟨he, hpy⟩ := arcovar_error x p a e h hn
  refine ⟨(covariance_normalEq_iff x p (nth a)).mp hn, he, hpy, fun a' ha' => ?_⟩
  exact lsFit_solution_unique h a' ((covariance_normalEq_iff x p a').mpr ha')

/-- **modified covariance method, any field with involution, no solver hypothesis** -/
theorem modcovar_normalEq (x : List K) (p : ℕ) (a : List K) (e : K)
    (h : modcovar x p = some (a, e)) :
    (∀ b, b < p → ∑ t ∈ Ico p x.length, star (nth x (t - 1 - b)) * fwdErr x p (nth a) t
          + ∑ s ∈ range (x.length - p), nth x (s + 1 + b) * star (bwdErr x p (nth a) s) = 0) ∧
    e = fwdEnergy x p (nth a) + bwdEnergy x p (nth a) ∧
    (∀ a' : ℕ → K, fwdEnergy x p a' + bwdEnergy x p a' = e + ∑ i ∈ range (2 * (x.length - p)),
      lsDiff (colR (corrmtx x p .modified)) p (nth a) a' i
        * star (lsDiff (colR (corrmtx x p .modified)) p (nth a) a' i)) ∧
    (∀ a' : ℕ → K,
      (∀ b, b < p → ∑ t ∈ Ico p x.length, star (nth x (t - 1 - b)) * fwdErr x p a' t
          + ∑ s ∈ range (x.length - p), nth x (s + 1 + b) * star (bwdErr x p a' s) = 0) →
        ∀ j, j < p → a' j = nth a j) := by
  have hn := (lsFit_sound h).1
  obtain ⟨he, hpy⟩ := modcovar_error x p a e h hn
  refine ⟨(modified_normalEq_iff x p (nth a)).mp hn, he, hpy, fun a' ha' => ?_⟩
  exact lsFit_solution_unique h a' ((modified_normalEq_iff x p a').mpr ha')

/-- **`arcovar` / `modcovar` succeed exactly when the Gram matrix of the regressor block of their data
matrix is nonsingular** -/
theorem covar_succeeds_iff (x : List K) (p : ℕ) :
    ((∃ a e, arcovar x p = some (a, e)) ↔
      ∀ d : ℕ → K,
        (∀ b, b < p → ∑ i ∈ range (x.length - p), star (colR (corrmtx x p .covariance) i b)
            * ∑ j ∈ range p, colR (corrmtx x p .covariance) i j * d j = 0) →
          ∀ j, j < p → d j = 0) ∧
    ((∃ a e, modcovar x p = some (a, e)) ↔
      ∀ d : ℕ → K,
        (∀ b, b < p → ∑ i ∈ range (2 * (x.length - p)), star (colR (corrmtx x p .modified) i b)
            * ∑ j ∈ range p, colR (corrmtx x p .modified) i j * d j = 0) →
          ∀ j, j < p → d j = 0) :=
  ⟨lsFit_some_iff _ _ p, lsFit_some_iff _ _ p⟩

end Solver

section SolverRC
open SpecVerif.GJL
variable {𝕜 : Type} [RCLike 𝕜] [IsZero 𝕜] [LawfulIsZero 𝕜]

/-- **C14, covariance method, unconditional** (`ℝ`/`ℂ`, lawful pivot test): if `arcovar x p` returns
`(a, e)` then the normal equations hold, `e` is the forward prediction-error energy
`Σ_{t=p}^{N-1} |x[t] + Σ_j a_j x[t-1-j]|²`, no coefficient vector has a smaller one, and every
coefficient vector with the same energy coincides with `a` (on `j < p`). -/
theorem arcovar_least_squares (x : List 𝕜) (p : ℕ) (a : List 𝕜) (e : 𝕜)
    (h : arcovar x p = some (a, e)) :
    (∀ b, b < p → ∑ t ∈ Ico p x.length, star (nth x (t - 1 - b)) * fwdErr x p (nth a) t = 0) ∧
    e = ((∑ t ∈ Ico p x.length, ‖fwdErr x p (nth a) t‖ ^ 2 : ℝ) : 𝕜) ∧
    (∀ a' : ℕ → 𝕜, ∑ t ∈ Ico p x.length, ‖fwdErr x p (nth a) t‖ ^ 2
      ≤ ∑ t ∈ Ico p x.length, ‖fwdErr x p a' t‖ ^ 2) ∧
    (∀ a' : ℕ → 𝕜, (∀ a'' : ℕ → 𝕜, ∑ t ∈ Ico p x.length, ‖fwdErr x p a' t‖ ^ 2
        ≤ ∑ t ∈ Ico p x.length, ‖fwdErr x p a'' t‖ ^ 2) → ∀ j, j < p → a' j = nth a j) := by
  obtain ⟨hne, _, _, huniq⟩ := arcovar_normalEq x p a e h
  obtain ⟨he, hmin⟩ := arcovar_optimal x p a e h hne
  refine ⟨hne, he, hmin, fun a' hmin' => huniq a' ?_⟩
  rw [← covariance_normalEq_iff]
  apply normalEq_of_minimiser
  intro a''
  rw [(covariance_energy_real x p a').1, (covariance_energy_real x p a'').1]
  exact hmin' a''

/-- **C14, modified covariance method, unconditional** (`ℝ`/`ℂ`, lawful pivot test) -/
theorem modcovar_least_squares (x : List 𝕜) (p : ℕ) (a : List 𝕜) (e : 𝕜)
    (h : modcovar x p = some (a, e)) :
    (∀ b, b < p → ∑ t ∈ Ico p x.length, star (nth x (t - 1 - b)) * fwdErr x p (nth a) t
          + ∑ s ∈ range (x.length - p), nth x (s + 1 + b) * star (bwdErr x p (nth a) s) = 0) ∧
    e = ((∑ t ∈ Ico p x.length, ‖fwdErr x p (nth a) t‖ ^ 2
          + ∑ s ∈ range (x.length - p), ‖bwdErr x p (nth a) s‖ ^ 2 : ℝ) : 𝕜) ∧
    (∀ a' : ℕ → 𝕜, ∑ t ∈ Ico p x.length, ‖fwdErr x p (nth a) t‖ ^ 2
          + ∑ s ∈ range (x.length - p), ‖bwdErr x p (nth a) s‖ ^ 2
      ≤ ∑ t ∈ Ico p x.length, ‖fwdErr x p a' t‖ ^ 2
          + ∑ s ∈ range (x.length - p), ‖bwdErr x p a' s‖ ^ 2) ∧
    (∀ a' : ℕ → 𝕜, (∀ a'' : ℕ → 𝕜, ∑ t ∈ Ico p x.length, ‖fwdErr x p a' t‖ ^ 2
          + ∑ s ∈ range (x.length - p), ‖bwdErr x p a' s‖ ^ 2
        ≤ ∑ t ∈ Ico p x.length, ‖fwdErr x p a'' t‖ ^ 2
          + ∑ s ∈ range (x.length - p), ‖bwdErr x p a'' s‖ ^ 2) → ∀ j, j < p → a' j = nth a j) := by
  obtain ⟨hne, _, _, huniq⟩ := modcovar_normalEq x p a e h
  obtain ⟨he, hmin⟩ := modcovar_optimal x p a e h hne
  refine ⟨hne, he, hmin, fun a' hmin' => huniq a' ?_⟩
  rw [← modified_normalEq_iff]
  apply normalEq_of_minimiser
  intro a''
  rw [(covariance_energy_real x p a').2, (covariance_energy_real x p a'').2]
  exact hmin' a''

/-- **Marple covariance stand-in, unconditional**: the coefficients of `arcovar`, and for `p < N` the
minimum forward energy per prediction equation `E_min/(N-p)` -/
theorem arcovarMarple_least_squares (x : List 𝕜) (p : ℕ) (hp : p < x.length) (a : List 𝕜) (e' : 𝕜)
    (h : arcovarMarple x p = some (a, e')) :
    (∃ e, arcovar x p = some (a, e)) ∧
    e' = (((∑ t ∈ Ico p x.length, ‖fwdErr x p (nth a) t‖ ^ 2) / ((x.length - p : ℕ) : ℝ) : ℝ) : 𝕜) ∧
    ∀ a' : ℕ → 𝕜, ∑ t ∈ Ico p x.length, ‖fwdErr x p (nth a) t‖ ^ 2
      ≤ ∑ t ∈ Ico p x.length, ‖fwdErr x p a' t‖ ^ 2 := by
  obtain ⟨e, h1, _⟩ := (arcovarMarple_iff x p a e').mp h
  obtain ⟨h2, _, h3, h4⟩ := arcovarMarple_optimal x p hp a e' h (arcovar_least_squares x p a e h1).1
  exact ⟨h2, h3, h4⟩

/-- **Marple modified covariance stand-in, unconditional**: the coefficients of `modcovar`, and the
minimum forward + backward energy per equation `E_min/(2(N-p))` -/
theorem modcovarMarple_least_squares (x : List 𝕜) (p : ℕ) (hp : p < x.length) (a : List 𝕜) (e' : 𝕜)
    (h : modcovarMarple x p = some (a, e')) :
    (∃ e, modcovar x p = some (a, e)) ∧
    e' = (((∑ t ∈ Ico p x.length, ‖fwdErr x p (nth a) t‖ ^ 2
          + ∑ s ∈ range (x.length - p), ‖bwdErr x p (nth a) s‖ ^ 2)
            / ((2 * (x.length - p) : ℕ) : ℝ) : ℝ) : 𝕜) ∧
    ∀ a' : ℕ → 𝕜, ∑ t ∈ Ico p x.length, ‖fwdErr x p (nth a) t‖ ^ 2
          + ∑ s ∈ range (x.length - p), ‖bwdErr x p (nth a) s‖ ^ 2
      ≤ ∑ t ∈ Ico p x.length, ‖fwdErr x p a' t‖ ^ 2
          + ∑ s ∈ range (x.length - p), ‖bwdErr x p a' s‖ ^ 2 := by
  obtain ⟨e, h1, _⟩ := (modcovarMarple_iff x p a e').mp h
  obtain ⟨h2, _, h3, h4⟩ :=
    modcovarMarple_optimal x p hp a e' h (modcovar_least_squares x p a e h1).1
  exact ⟨h2, h3, h4⟩

end SolverRC

section SolverExamples
open SpecVerif.GJL

/-- exact zero tests on `ℚ` and `ℝ` for the examples, and their lawfulness (the hypothesis
`LawfulIsZero` of section 6 is satisfiable) -/
local instance : IsZero ℚ := ⟨fun q => decide (q = 0)⟩
local instance : LawfulIsZero ℚ := lawful_decide
noncomputable local instance : IsZero ℝ := ⟨fun q => decide (q = 0)⟩
local instance : LawfulIsZero ℝ := lawful_decide

/-- hypotheses of `gjStep_sound` / `solveVec_solves` / `solveMat_succeeds_iff` / `inverse_right`: a
`2 × 2` system whose first pivot is zero (row swap), a singular system, a `3 × 3` inverse -/
example :
    gjStep 2 3 ([[0, 1, 2], [1, 1, 3]] : Mat ℚ) 0 = some [[1, 1, 3], [0, 1, 2]] ∧
    solveVec ([[0, 1], [1, 1]] : Mat ℚ) [2, 3] 2 = some [1, 2] ∧
    solveVec ([[1, 2], [2, 4]] : Mat ℚ) [1, 1] 2 = none ∧
    inverse ([[0, 0, 2], [0, 1, 0], [4, 0, 0]] : Mat ℚ) 3
      = some [[0, 0, 1 / 4], [0, 1, 0], [1 / 2, 0, 0]] := by
  decide +kernel

/-- hypotheses of `lsFit_normalEq` / `arcovar_normalEq` / `modcovar_normalEq` over `ℚ` (order 2, the
elimination runs two steps); the singular case of `covar_succeeds_iff` (constant record, order 2) -/
example :
    arcovar ([1, 2, 3, 5, 4, -1] : List ℚ) 2 = some ([-583 / 257, 511 / 257], 1756 / 257) ∧
    modcovar ([1, 2, 3, 5, 4, -1] : List ℚ) 2 = some ([-100 / 83, 52 / 83], 1550 / 83) ∧
    arcovar ([1, 1, 1, 1, 1] : List ℚ) 2 = none := by
  decide +kernel

/-- hypothesis of `arcovar_least_squares` / `modcovar_least_squares` /
`arcovarMarple_least_squares` over `ℝ`: the model returns a value on `x = [1,2,3,5]`, `p = 1` -/
example : arcovar ([1, 2, 3, 5] : List ℝ) 1 = some ([-23/14], 3/14) ∧
    modcovar ([1, 2, 3, 5] : List ℝ) 1 = some ([-23/26], 147/13) := by
  constructor
  · simp [arcovar, lsFit, lstsq, solveVec, solveMat, gjStep, conjT, matMul, matVec, corrmtx,
      mentryM, vec, nth, sumR, isZero, List.range_succ, Finset.sum_range_succ]
    norm_num
  · simp [modcovar, lsFit, lstsq, solveVec, solveMat, gjStep, conjT, matMul, matVec, corrmtx,
      mentryM, vec, nth, sumR, isZero, List.range_succ, Finset.sum_range_succ]
    norm_num

end SolverExamples

/-! ### instantiation at the executed scalar type `CRat`

`Lemmas/CRatField.lean` makes the Gaussian rationals of the executable model a `Field` / `StarRing` whose
operations ARE the model's hand-written instances.  The theorems below are the generic theorems of this
file specialised to `K := CRat` (by plain application — no rewriting): their statements elaborate to the
model functions applied to the model's own instances (`CRat.instAdd`, `CRat.instMul`, `CRat.instDiv`, …,
`CRat.instConj`), i.e. to the code that the differential test executes; `conj` is the model's conjugation.
The `example … := rfl` lines check that the `Field`-path elaboration used by the generic theorems,
instantiated at `CRat`, is that very function. -/
section CRatInstantiation

/-- **`arcovar_normalEq` for the executed model** (the model's own Gauss–Jordan solver with its own
pivot test `instIsZeroCRat`, lawful by `CRat.instLawfulIsZero`): normal equations, error energy,
energy excess of any other coefficient vector, uniqueness -/
theorem arcovar_normalEq_CRat (x : List CRat) (p : ℕ) (a : List CRat) (e : CRat)
    (h : arcovar x p = some (a, e)) :
    (∀ b, b < p → ∑ t ∈ Ico p x.length, conj (nth x (t - 1 - b)) * fwdErr x p (nth a) t = 0) ∧
    e = fwdEnergy x p (nth a) ∧
    (∀ a' : ℕ → CRat, fwdEnergy x p a' = e + ∑ i ∈ range (x.length - p),
      lsDiff (colR (corrmtx x p .covariance)) p (nth a) a' i
        * conj (lsDiff (colR (corrmtx x p .covariance)) p (nth a) a' i)) ∧
    (∀ a' : ℕ → CRat,
      (∀ b, b < p → ∑ t ∈ Ico p x.length, conj (nth x (t - 1 - b)) * fwdErr x p a' t = 0) →
        ∀ j, j < p → a' j = nth a j) :=
  arcovar_normalEq x p a e h

example : (fun (K : Type) [Field K] [StarRing K] [IsZero K] => (arcovar : List K → _)) CRat
    = @arcovar CRat CRat.instAdd CRat.instSub CRat.instMul CRat.instDiv CRat.instNeg
        CRat.instOfNatOfNatNat CRat.instConj instIsZeroCRat := rfl
example : @arcovar CRat CRat.instAdd CRat.instSub CRat.instMul CRat.instDiv CRat.instNeg
    CRat.instOfNatOfNatNat CRat.instConj instIsZeroCRat = arcovar := rfl

end CRatInstantiation

end SpecVerif.C14
