import SpecVerif.Proofs.Lemmas.ArmaEst
import SpecVerif.Proofs.C08
import SpecVerif.Proofs.C09
import SpecVerif.Proofs.C12
import SpecVerif.Proofs.C14
import SpecVerif.Proofs.Lemmas.SchurCohn
/-
  C15 — the moving-average estimator `ma` (`maEstimate`), the ARMA estimator `arma_estimate`
  (`armaEstimate`) and the PSD of the AR / MA / ARMA classes (`arma2psd` + the class glue `classPsd`).

  Property theorems only (helpers: `Proofs/Lemmas/ArmaEst.lean`, namespace `SpecVerif.ArmaEstL`; the
  facts about `aryule`, `maEstimate`, `arma2psd`, `classPsd`, `corrmtx`, `correlation` are reused from
  C12, C08 and C09).

  Conventions.  `K` is a field with an involution and an arbitrary zero test `[IsZero K]` (the pivot
  test of the model's Gauss–Jordan solver: none of the statements depends on what it answers).
  The Python `arma_estimate` switches at `P ≤ 4` between `arcovar_marple` and `arcovar` for the AR part;
  the model has a SINGLE solver — `arcovar` = `lsFit` = normal equations through `lstsq` (the Marple
  recursion is modelled at specification level as the same least-squares solution) — so the length
  statements below hold on both sides of that switch.
  `armaResid x a P` is the residual `e[i] = x[i+P] + Σ_{j<P} a_j x[i+P-1-j]`, `i < N-P`, handed to the
  MA stage; `lagZ R d` the two-sided lag `r(d)` (`R[d]`, `conj R[-d]` for `d < 0`);
  `optPolyAt ω c k` is `1 + Σ c_j ω^{(j+1)k}` for `c = some [c_0..]` and `1` for `None`;
  `psdLen isReal nfft` is the number of values a class returns (`NFFT/2+1` / `(NFFT+1)/2` for real
  data, `NFFT` otherwise).

  Invertibility is now PROVED for every `Q` (section 9, `ma_invertible`, `arma_ma_invertible`): all
  zeros of the MA polynomial `z^Q + b_1 z^{Q-1} + … + b_Q` lie strictly inside the unit circle, for
  any data.  It follows from `|k_i| < 1` for every reflection coefficient of the second Levinson
  recursion (`ma_refl_lt_one`) by the Schur–Cohn theorem for the step-up recursion
  (`Proofs/Lemmas/SchurCohn.lean`, through `C12.yule_stable`); `ma_invertible_order1` is the special
  case `Q = 1`.  Consequently `B(ω^k) ≠ 0` on the whole frequency grid and `pma` is strictly positive
  for every `Q` (`ma_psd_pos`).
  The correctness of the Gauss–Jordan elimination behind `lstsq` is proved in
  `Proofs/Lemmas/GaussJordan.lean` (C14, section 6) for a lawful pivot test (`GJL.LawfulIsZero`:
  `isZero x = true ↔ x = 0`); `arma_ar_ls_optimal_solver` (section 8) uses it to discharge the solver
  contract of `arma_ar_ls_optimal`.  Every other statement only uses the shape of the solver's output
  and holds for an arbitrary pivot test.
-/
namespace SpecVerif.C15
open Finset SpecVerif SpecVerif.ArmaL SpecVerif.ArmaEstL

section Generic
variable {K : Type} [Field K] [StarRing K]

/-! ### 1. shapes -/

/-- **`ma` returns `Q` coefficients** (C12) -/
theorem ma_len (x : List K) (Q M : ℕ) (b : List K) (rho : K)
    (h : maEstimate x Q M = .ok (b, rho)) : b.length = Q :=
  C12.ma_length x Q M b rho h

section Est
variable [IsZero K]

/-- **the least-squares solver returns as many coefficients as there are columns**, whatever the
pivot test does: `solveVec` (order `n`), `lstsq` (`r × c`), `arcovar` (order `p`) -/
theorem solver_len (A X : Mat K) (b v : List K) (n r c : ℕ) (y : List K) (p : ℕ) (a : List K) (e : K) :
    (solveVec A b n = some v → v.length = n)
    ∧ (lstsq X b r c = some v → v.length = c)
    ∧ (arcovar y p = some (a, e) → a.length = p) :=
  ⟨solveVec_length A b n v, lstsq_length X b r c v, arcovar_length y p a e⟩

/-- **`arma_estimate` returns exactly `P` AR and `Q` MA coefficients** (one solver in the model, so on
both sides of the code's `P ≤ 4` switch) -/
theorem arma_len (x : List K) (P Q lag : ℕ) (a b : List K) (rho : K)
    (h : armaEstimate x P Q lag = .ok (a, b, rho)) : a.length = P ∧ b.length = Q := by
  obtain ⟨_, _, _, ⟨e, he⟩, hma⟩ := (armaEstimate_ok_iff x P Q lag a b rho).mp h
  exact ⟨arcovar_length _ P a e he, C12.ma_length _ Q (2 * Q) b rho hma⟩

/-- non-vacuity: `x = [1,2,0,1,3,1]` over `ℚ`, `P = Q = 1`, `lag = 3` succeeds with `a = [-1180/1249]` -/
example : (armaEstimate ([1, 2, 0, 1, 3, 1] : List ℚ) 1 1 3).toOption.map (fun r => r.1)
    = some [-1180 / 1249] := by
  decide +kernel

/-! ### 2. stages, domain and errors -/

/-- **the four stages**: `arma_estimate` succeeds iff `lag < N`, `Q ≤ lag + P`,
`lag + P - Q ≤ N - P`, the covariance solver returns the AR part from `armaLagSeq` of the unbiased
lags `0..lag`, and `ma(resid, Q, 2Q)` succeeds on the residual; the variance is the MA stage's. -/
theorem arma_stages (x : List K) (P Q lag : ℕ) (a b : List K) (rho : K) :
    armaEstimate x P Q lag = .ok (a, b, rho) ↔
      lag < x.length ∧ Q ≤ lag + P ∧ lag + P - Q ≤ x.length - P ∧
      (∃ e, arcovar (armaLagSeq (correlation x x lag .unbiased 1) P Q lag) P = some (a, e)) ∧
      maEstimate (armaResid x a P) Q (2 * Q) = .ok (b, rho) :=
  armaEstimate_ok_iff x P Q lag a b rho

/-- **on success** `0 < Q` (the MA stage `ma(resid, Q, 2Q)` rejects `Q = 0`), `lag < N` and the lag
window fits; the MA part is the two-stage Yule–Walker fit of the residual, the variance the one of
its long AR(`2Q`) fit -/
theorem arma_ok_domain (x : List K) (P Q lag : ℕ) (a b : List K) (rho : K)
    (h : armaEstimate x P Q lag = .ok (a, b, rho)) :
    0 < Q ∧ lag < x.length ∧ Q ≤ lag + P ∧ lag + P - Q ≤ x.length - P
    ∧ b = (aryule ((1 : K) :: (aryule (armaResid x a P) (2 * Q) .biased).A) Q .biased).A
    ∧ rho = (aryule (armaResid x a P) (2 * Q) .biased).P := by
  obtain ⟨h1, h2, h3, _, hma⟩ := (armaEstimate_ok_iff x P Q lag a b rho).mp h
  obtain ⟨hQ, _, hb, hr⟩ := (C12.ma_eq_two_yule _ Q (2 * Q) b rho).mp hma
  exact ⟨hQ, h1, h2, h3, hb, hr⟩

/-- **errors**: `lag ≥ N` is the assertion; a lag window that does not fit is an index error; a
singular covariance problem is reported by the solver; otherwise the MA stage's `ValueError`
propagates, and it is raised exactly for `Q = 0` (`ma(resid, 0, 0)`). -/
theorem arma_errors (x : List K) (P Q lag : ℕ) :
    (lag ≥ x.length → armaEstimate x P Q lag = .error "assert")
    ∧ (lag < x.length → (lag + P < Q ∨ lag + P - Q > x.length - P) →
        armaEstimate x P Q lag = .error "index")
    ∧ (lag < x.length → Q ≤ lag + P → lag + P - Q ≤ x.length - P →
        arcovar (armaLagSeq (correlation x x lag .unbiased 1) P Q lag) P = none →
        armaEstimate x P Q lag = .error "singular")
    ∧ (lag < x.length → Q ≤ lag + P → lag + P - Q ≤ x.length - P →
        ∀ a e, arcovar (armaLagSeq (correlation x x lag .unbiased 1) P Q lag) P = some (a, e) →
        (armaEstimate x P Q lag = .error "value" ↔ Q = 0)) := by
  refine ⟨?_, ?_, ?_, ?_⟩
  · intro h
    unfold armaEstimate
    simp only [if_pos h]
  · intro h1 h2
    unfold armaEstimate
    simp only [if_neg (Nat.not_le.mpr h1), if_pos h2]
  · intro h1 h2 h3 hc
    unfold armaEstimate
    have h23 : ¬(lag + P < Q ∨ lag + P - Q > x.length - P) := by omega
    simp only [if_neg (Nat.not_le.mpr h1), if_neg h23, hc]
  · intro h1 h2 h3 a e hc
    unfold armaEstimate
    have h23 : ¬(lag + P < Q ∨ lag + P - Q > x.length - P) := by omega
    simp only [if_neg (Nat.not_le.mpr h1), if_neg h23, hc]
    rw [armaResid_eq]
    constructor
    · intro h
      by_contra hQ
      cases hm : maEstimate (armaResid x a P) Q (2 * Q) with
      | error s =>
        have := (C12.ma_error (armaResid x a P) Q (2 * Q)).mp
        rw [hm] at h
        simp only [Except.error.injEq] at h
        rw [h] at hm
        have := this hm
        omega
      | ok br =>
        rw [hm] at h
        cases h
    · intro hQ
      rw [(C12.ma_error (armaResid x a P) Q (2 * Q)).mpr (Or.inl hQ)]

/-- non-vacuity of the `singular` branch: `x = [1,2,0,1,3,1]`, `P = 2`, `Q = 1`, `lag = 3` -/
example : armaEstimate ([1, 2, 0, 1, 3, 1] : List ℚ) 2 1 3 = .error "singular" := by
  decide +kernel

end Est

/-! ### 4. the lag sequence -/

/-- **`armaLagSeq`**: `lag` samples, entry `k < min lag (lag+P-Q)` is the lag `r(k+Q+1-P)` — a negative
lag (possible for `P > Q+1`) is the conjugate of `R[P-k-Q-1]` — and entries from `lag+P-Q` on (only for
`Q > P`) are the zero padding of the `resize` -/
theorem arma_lag_seq (R : List K) (P Q lag : ℕ) :
    (armaLagSeq R P Q lag).length = lag
    ∧ (∀ k, k < lag → k < lag + P - Q →
        nth (armaLagSeq R P Q lag) k = lagZ R ((k : ℤ) + Q + 1 - P))
    ∧ (∀ k, lag + P - Q ≤ k → nth (armaLagSeq R P Q lag) k = 0) :=
  ⟨armaLagSeq_length R P Q lag, fun k hk hk' => nth_armaLagSeq_lagZ R P Q lag k hk hk',
    fun k hk => nth_armaLagSeq_pad R P Q lag k hk⟩

/-- the same entry in natural numbers: `R[k+Q+1-P]` when `P ≤ k+Q+1`, else `conj R[P-(k+Q+1)]` -/
theorem arma_lag_seq_nat (R : List K) (P Q lag k : ℕ) (hk : k < lag) (hk' : k < lag + P - Q) :
    nth (armaLagSeq R P Q lag) k
      = if k + Q + 1 < P then star (nth R (P - (k + Q + 1))) else nth R (k + Q + 1 - P) :=
  nth_armaLagSeq R P Q lag k hk hk'

/-- **`P = Q`**: the sequence is `r(1), …, r(lag)` -/
theorem arma_lag_seq_diag (R : List K) (P lag : ℕ) :
    armaLagSeq R P P lag = vec lag (fun k => nth R (k + 1)) :=
  armaLagSeq_diag R P lag

/-- non-vacuity: `R = [10,11,12,13,14]`: `P=1,Q=3` reads lags `3,4` then pads; `P=3,Q=1` starts at the
negative lag `-1` -/
example : armaLagSeq ([10, 11, 12, 13, 14] : List ℚ) 1 3 4 = [13, 14, 0, 0]
    ∧ armaLagSeq ([10, 11, 12, 13, 14] : List ℚ) 3 1 4 = [11, 10, 11, 12] := by
  decide +kernel

/-! ### 5. `P = Q`: the AR part is least squares on the modified Yule–Walker equations -/

/-- the lags handed over are the **unbiased** sample autocorrelation lags
`r(d) = Σ_{n<N-d} x[n+d]·conj x[n] / (N-d)`, `d ≤ lag` -/
theorem arma_lags_unbiased (x : List K) (lag d : ℕ) (hd : d ≤ lag) :
    nth (correlation x x lag .unbiased (1 : K)) d
      = (∑ n ∈ range (x.length - d), nth x (n + d) * star (nth x n)) / ((x.length - d : ℕ) : K) := by
  rw [C09.correlation_def_unbiased x x lag d hd 1, Nat.max_self]

/-- **modified Yule–Walker equations** (`P = Q`): with `R` the unbiased lags and
`X = corrmtx(armaLagSeq R P P lag, P, 'covariance')` (`lag - P` rows), the residual of row `k-(P+1)`
of the least-squares problem `min ‖X₁ + X_c a‖²` is `r(k) + Σ_{j<P} a_j r(k-1-j)`, for
`k = Q+1, …, lag`: the problem handed to the solver IS the least-squares problem of the modified
Yule–Walker equations over the lags `Q+1..lag`. -/
theorem arma_ar_is_modified_yw (R : List K) (P lag : ℕ) (a : ℕ → K) (k : ℕ) (hk1 : P + 1 ≤ k)
    (hk2 : k ≤ lag) :
    k - (P + 1) < lag - P
    ∧ mentry (corrmtx (armaLagSeq R P P lag) P .covariance) (k - (P + 1)) 0
        + ∑ j ∈ range P,
            mentry (corrmtx (armaLagSeq R P P lag) P .covariance) (k - (P + 1)) (j + 1) * a j
      = nth R k + ∑ j ∈ range P, a j * nth R (k - 1 - j) := by
  have hlen : (armaLagSeq R P P lag).length = lag := armaLagSeq_length R P P lag
  have hi : k - (P + 1) < (armaLagSeq R P P lag).length - P := by rw [hlen]; omega
  refine ⟨by omega, ?_⟩
  have hY : ∀ m, m < lag → nth (armaLagSeq R P P lag) m = nth R (m + 1) := by
    intro m hm
    rw [armaLagSeq_diag, nth_vec, if_pos hm]
  rw [(C09.corrmtx_covariance_entry _ P _ 0 hi (Nat.zero_le P)).1, hY _ (by omega)]
  congr 1
  · congr 1; omega
  · apply Finset.sum_congr rfl
    intro j hj
    have hj' := Finset.mem_range.mp hj
    rw [(C09.corrmtx_covariance_entry _ P _ (j + 1) hi (by omega)).1, hY _ (by omega), mul_comm]
    congr 2
    omega

section Est2
variable [IsZero K]

/-- **what the solver receives** (`P = Q`): if `arma_estimate` succeeds, its AR part is the output of
`lstsq` on `(-X_c, X₁)` with `lag - P` rows, whose row residual `X₁[i] - Σ_j (-X_c)[i][j]·a_j` at row
`i = k-(P+1)` is the modified Yule–Walker residual `r(k) + Σ_j a_j r(k-1-j)` of the unbiased lags. -/
theorem arma_ar_ls_problem (x : List K) (P lag : ℕ) (a b : List K) (rho : K)
    (h : armaEstimate x P P lag = .ok (a, b, rho)) :
    lstsq (lsNegXc (corrmtx (armaLagSeq (correlation x x lag .unbiased 1) P P lag) P .covariance)
            (lag - P) P)
          (lsRhs (corrmtx (armaLagSeq (correlation x x lag .unbiased 1) P P lag) P .covariance)
            (lag - P)) (lag - P) P = some a
    ∧ ∀ (c : ℕ → K) (k : ℕ), P + 1 ≤ k → k ≤ lag →
        nth (lsRhs (corrmtx (armaLagSeq (correlation x x lag .unbiased 1) P P lag) P .covariance)
              (lag - P)) (k - (P + 1))
          - ∑ j ∈ range P,
              mentry (lsNegXc (corrmtx (armaLagSeq (correlation x x lag .unbiased 1) P P lag) P
                .covariance) (lag - P) P) (k - (P + 1)) j * c j
        = nth (correlation x x lag .unbiased 1) k
            + ∑ j ∈ range P, c j * nth (correlation x x lag .unbiased 1) (k - 1 - j) := by
  obtain ⟨_, _, _, ⟨e, he⟩, _⟩ := (armaEstimate_ok_iff x P P lag a b rho).mp h
  constructor
  · have := lsFit_some _ _ P a e (by rw [arcovar_unfold] at he; exact he)
    rwa [armaLagSeq_length] at this
  · intro c k hk1 hk2
    obtain ⟨hi, hres⟩ := arma_ar_is_modified_yw (correlation x x lag .unbiased 1) P lag c k hk1 hk2
    rw [ls_row_residual _ _ P c _ hi, hres]

end Est2

/-! ### 6. the PSD of the AR / MA / ARMA classes -/

/-- **class PSD**: for `A`, `B` each a coefficient list or `None`, `NFFT >` their lengths,
`ω^NFFT = 1`: the class returns `psdLen` values and value `k` is
`c·(rho/sampling)·|B(ω^k)|²/|A(ω^k)|²` (`c = 2` for real data: one-sided, `c = 1` otherwise), times
`2π/df`, `df = sampling/NFFT`, when `scale_by_freq`.  So the PSD is proportional to `|B|²/|A|²` of the
exposed coefficients, the constant being `rho/sampling`. -/
theorem class_psd_eq {ω : K} {nfft : ℕ} (hn : 0 < nfft) (hω : ω ^ nfft = 1) (A B : Option (List K))
    (hA : ∀ a, A = some a → a.length < nfft) (hB : ∀ b, B = some b → b.length < nfft)
    (rho fs twoPi : K) (isReal s : Bool) (k : ℕ) (hk : k < psdLen isReal nfft) :
    (classPsd (arma2psd (twiddles ω nfft) A B rho fs nfft) isReal nfft s twoPi fs).length
        = psdLen isReal nfft
    ∧ nth (classPsd (arma2psd (twiddles ω nfft) A B rho fs nfft) isReal nfft s twoPi fs) k
      = (if isReal then 2 else 1)
        * (rho / fs * (optPolyAt ω B k * star (optPolyAt ω B k))
            / (optPolyAt ω A k * star (optPolyAt ω A k)))
        * (if s then twoPi / (fs / (nfft : K)) else 1) := by
  have hlen := C08.arma2psd_length (twiddles ω nfft) A B rho fs nfft
  constructor
  · rw [C08.classPsd_length, hlen]; rfl
  · rw [nth_classPsd _ isReal hn hlen s twoPi fs k hk,
      nth_arma2psd_opt hω A B hA hB rho fs k (lt_of_lt_of_le hk (psdLen_le isReal hn))]

/-- ARMA class (`parma`): `c·(rho/fs)·|B|²/|A|²`, unscaled -/
theorem class_psd_eq_arma {ω : K} {nfft : ℕ} (hn : 0 < nfft) (hω : ω ^ nfft = 1) (A B : List K)
    (hA : A.length < nfft) (hB : B.length < nfft) (rho fs twoPi : K) (isReal : Bool) (k : ℕ)
    (hk : k < psdLen isReal nfft) :
    nth (classPsd (arma2psd (twiddles ω nfft) (some A) (some B) rho fs nfft) isReal nfft false
          twoPi fs) k
      = (if isReal then 2 else 1)
        * (rho / fs * (polyAt ω B k * star (polyAt ω B k)) / (polyAt ω A k * star (polyAt ω A k))) := by
  rw [(class_psd_eq hn hω (some A) (some B) (fun a h => by cases h; exact hA)
    (fun b h => by cases h; exact hB) rho fs twoPi isReal false k hk).2]
  simp

/-- AR classes (`pyule`, `pburg`, `pcovar`, `pmodcovar`): `c·(rho/fs)/|A|²`, unscaled -/
theorem class_psd_eq_ar {ω : K} {nfft : ℕ} (hn : 0 < nfft) (hω : ω ^ nfft = 1) (A : List K)
    (hA : A.length < nfft) (rho fs twoPi : K) (isReal : Bool) (k : ℕ)
    (hk : k < psdLen isReal nfft) :
    nth (classPsd (arma2psd (twiddles ω nfft) (some A) none rho fs nfft) isReal nfft false
          twoPi fs) k
      = (if isReal then 2 else 1) * (rho / fs / (polyAt ω A k * star (polyAt ω A k))) := by
  rw [(class_psd_eq hn hω (some A) none (fun a h => by cases h; exact hA)
    (fun b h => by cases h) rho fs twoPi isReal false k hk).2]
  simp

/-- MA class (`pma`): `c·(rho/fs)·|B|²`, unscaled -/
theorem class_psd_eq_ma {ω : K} {nfft : ℕ} (hn : 0 < nfft) (hω : ω ^ nfft = 1) (B : List K)
    (hB : B.length < nfft) (rho fs twoPi : K) (isReal : Bool) (k : ℕ)
    (hk : k < psdLen isReal nfft) :
    nth (classPsd (arma2psd (twiddles ω nfft) none (some B) rho fs nfft) isReal nfft false
          twoPi fs) k
      = (if isReal then 2 else 1) * (rho / fs * (polyAt ω B k * star (polyAt ω B k))) := by
  rw [(class_psd_eq hn hω none (some B) (fun a h => by cases h)
    (fun b h => by cases h; exact hB) rho fs twoPi isReal false k hk).2]
  simp

/-- non-vacuity: `K = ℚ`, `ω = -1`, `NFFT = 2`, real data (`psdLen = 2`), `A = [3]`, `B = [2]`,
`rho = 5`, `fs = 2`, bin 1: `2·(5/2)·|1-2|²/|1-3|² = 5/4` -/
example : nth (classPsd (arma2psd (twiddles (-1 : ℚ) 2) (some [3]) (some [2]) 5 2 2) true 2 false
    7 2) 1 = 5 / 4 := by
  rw [class_psd_eq_arma (ω := -1) (by norm_num) (by norm_num) [3] [2] (by simp) (by simp) 5 2 7 true 1
    (by simp [psdLen])]
  simp [polyAt, nth]
  norm_num

end Generic

/-! ### real or complex data: positive variance, reflection coefficients, positive PSD -/

section RC
variable {F : Type} [RCLike F]

/-! ### 3. the variance is a positive real; the MA polynomial -/

/-- **`ma`: positive variance.**  For data that is not the zero signal the returned variance (the error
of the long AR(`M`) Yule–Walker fit) is a positive real number. -/
theorem ma_rho_pos (x : List F) (hx : ∃ j, j < x.length ∧ nth x j ≠ 0) (Q M : ℕ) (b : List F)
    (rho : F) (h : maEstimate x Q M = .ok (b, rho)) :
    0 < RCLike.re rho ∧ RCLike.im rho = 0 := by
  obtain ⟨_, _, _, rfl⟩ := (C12.ma_eq_two_yule x Q M b rho).mp h
  have hp := C12.yule_stable_params x hx M
  exact (posReal_iff _).mp (posReal_of_star _ hp.1 hp.2.1)

/-- **`ma`: the second Levinson recursion is stable.**  Its input `[1, a_1..a_M]` is never the zero
signal, so for *any* data every reflection coefficient of the AR(`Q`) fit that produces the MA
coefficients has modulus `< 1`, and its final error is a positive real. -/
theorem ma_refl_lt_one (x : List F) (Q M : ℕ) :
    (∀ i, i < Q → ‖nth (aryule ((1 : F) :: (aryule x M .biased).A) Q .biased).ref i‖ < 1)
    ∧ 0 < RCLike.re (aryule ((1 : F) :: (aryule x M .biased).A) Q .biased).P
    ∧ RCLike.im (aryule ((1 : F) :: (aryule x M .biased).A) Q .biased).P = 0 := by
  have hp := C12.yule_stable_params _ (one_cons_nonzero (aryule x M .biased).A) Q
  exact ⟨hp.2.2, (posReal_iff _).mp (posReal_of_star _ hp.1 hp.2.1)⟩

/-- **`ma`: `|b_Q| < 1`** — the last MA coefficient (± the product of the zeros of
`B(z) = z^Q + b_1 z^{Q-1} + … + b_Q`) has modulus `< 1`, for any data: a necessary condition for all
zeros to lie inside the unit circle. -/
theorem ma_b_last_lt_one (x : List F) (Q M : ℕ) (b : List F) (rho : F)
    (h : maEstimate x Q M = .ok (b, rho)) : ‖nth b (Q - 1)‖ < 1 := by
  obtain ⟨hQ, _, rfl, _⟩ := (C12.ma_eq_two_yule x Q M b rho).mp h
  obtain ⟨p, rfl⟩ : ∃ p, Q = p + 1 := ⟨Q - 1, by omega⟩
  rw [Nat.add_sub_cancel]
  exact C12.yule_last_coeff_lt_one _ (one_cons_nonzero _) p

/-- **`ma`, `Q = 1`: invertibility.**  The zero of `z + b_1` lies strictly inside the unit circle. -/
theorem ma_invertible_order1 (x : List F) (M : ℕ) (b : List F) (rho : F)
    (h : maEstimate x 1 M = .ok (b, rho)) (z : F) (hz : z + nth b 0 = 0) : ‖z‖ < 1 := by
  obtain ⟨_, _, rfl, _⟩ := (C12.ma_eq_two_yule x 1 M b rho).mp h
  exact C12.yule_stable_order1 _ (one_cons_nonzero _) z hz

/-- non-vacuity: `ma([1,2,0,1], Q=1, M=2)` over `ℚ` is `b = [1/6]`, `rho = 5/4` -/
example : maEstimate ([1, 2, 0, 1] : List ℚ) 1 2 = .ok ([1 / 6], 5 / 4) := by
  decide +kernel

section ArmaRC
variable [IsZero F]

/-- **`arma_estimate`: positive variance, `|b_Q| < 1`.**  If the residual
`e[i] = x[i+P] + Σ_{j<P} a_j x[i+P-1-j]` (`i < N-P`) of the returned AR part is not identically zero,
the returned variance is a positive real number; and (for any data) the last MA coefficient has
modulus `< 1`. -/
theorem arma_rho_pos (x : List F) (P Q lag : ℕ) (a b : List F) (rho : F)
    (h : armaEstimate x P Q lag = .ok (a, b, rho))
    (hres : ∃ i, i < x.length - P ∧
      nth x (i + P) + ∑ j ∈ range P, nth a j * nth x (i + P - j - 1) ≠ 0) :
    0 < RCLike.re rho ∧ RCLike.im rho = 0 ∧ ‖nth b (Q - 1)‖ < 1 := by
  obtain ⟨_, _, _, _, hma⟩ := (armaEstimate_ok_iff x P Q lag a b rho).mp h
  obtain ⟨i, hi, hne⟩ := hres
  have hx : ∃ j, j < (armaResid x a P).length ∧ nth (armaResid x a P) j ≠ 0 :=
    ⟨i, by rw [armaResid_length]; exact hi, by rw [nth_armaResid x a P i hi]; exact hne⟩
  have h1 := ma_rho_pos _ hx Q (2 * Q) b rho hma
  exact ⟨h1.1, h1.2, ma_b_last_lt_one _ Q (2 * Q) b rho hma⟩

/-- the residual hypothesis cannot be dropped: if the residual vanishes identically the long AR fit
sees the zero signal and the returned variance is `0` -/
theorem arma_rho_zero_of_resid_zero (x : List F) (P Q lag : ℕ) (a b : List F) (rho : F)
    (h : armaEstimate x P Q lag = .ok (a, b, rho))
    (hres : ∀ i, i < x.length - P →
      nth x (i + P) + ∑ j ∈ range P, nth a j * nth x (i + P - j - 1) = 0) :
    rho = 0 := by
  obtain ⟨_, _, _, _, hma⟩ := (armaEstimate_ok_iff x P Q lag a b rho).mp h
  obtain ⟨_, _, _, rfl⟩ := (C12.ma_eq_two_yule _ Q (2 * Q) b rho).mp hma
  have hz : ∀ m, nth (armaResid x a P) m = 0 := by
    intro m
    by_cases hm : m < x.length - P
    · rw [nth_armaResid x a P m hm]; exact hres m hm
    · exact nth_of_ge _ _ (by rw [armaResid_length]; omega)
  have hr0 : nth (correlation (armaResid x a P) (armaResid x a P) (2 * Q) .biased (1 : F)) 0 = 0 := by
    rw [C09.correlation_def_biased _ _ (2 * Q) 0 (Nat.zero_le _) 1]
    rw [Finset.sum_eq_zero (fun j _ => by rw [hz, zero_mul]), zero_div]
  rw [YuleL.aryule_eq_levRun _ _ YuleL.two_ne_zero_rc, C10.levinson_error_product, hr0, zero_mul]

end ArmaRC

/-! ### 7. strict positivity of the PSD -/

/-- **the PSD is a positive real number** wherever neither polynomial vanishes on the grid: if
`rho` and `sampling` (and `2π` when `scale_by_freq`) are positive reals and `A(ω^k) ≠ 0`, `B(ω^k) ≠ 0`,
value `k` of the AR/MA/ARMA class PSD has positive real part and zero imaginary part; in particular it
is non-zero, and — the model's division being total with `z/0 = 0` — it is not the junk value of a
division by zero (it is 'finite'). -/
theorem psd_pos_of_no_unit_zeros {ω : F} {nfft : ℕ} (hn : 0 < nfft) (hω : ω ^ nfft = 1)
    (A B : Option (List F)) (hA : ∀ a, A = some a → a.length < nfft)
    (hB : ∀ b, B = some b → b.length < nfft) (rho fs twoPi : F)
    (hrho : 0 < RCLike.re rho ∧ RCLike.im rho = 0) (hfs : 0 < RCLike.re fs ∧ RCLike.im fs = 0)
    (isReal s : Bool) (htp : s = true → 0 < RCLike.re twoPi ∧ RCLike.im twoPi = 0)
    (k : ℕ) (hk : k < psdLen isReal nfft)
    (hAk : optPolyAt ω A k ≠ 0) (hBk : optPolyAt ω B k ≠ 0) :
    0 < RCLike.re
        (nth (classPsd (arma2psd (twiddles ω nfft) A B rho fs nfft) isReal nfft s twoPi fs) k)
    ∧ RCLike.im
        (nth (classPsd (arma2psd (twiddles ω nfft) A B rho fs nfft) isReal nfft s twoPi fs) k) = 0
    ∧ nth (classPsd (arma2psd (twiddles ω nfft) A B rho fs nfft) isReal nfft s twoPi fs) k ≠ 0 := by
  have hpos : PosReal
      (nth (classPsd (arma2psd (twiddles ω nfft) A B rho fs nfft) isReal nfft s twoPi fs) k) := by
    rw [(class_psd_eq hn hω A B hA hB rho fs twoPi isReal s k hk).2]
    have hr := (posReal_iff rho).mpr hrho
    have hf := (posReal_iff fs).mpr hfs
    refine PosReal.mul (PosReal.mul ?_ ?_) ?_
    · cases isReal
      · exact posReal_one
      · exact posReal_two
    · exact ((hr.div hf).mul (posReal_mul_star hBk)).div (posReal_mul_star hAk)
    · cases s
      · exact posReal_one
      · exact ((posReal_iff twoPi).mpr (htp rfl)).div (hf.div (posReal_natCast hn))
  exact ⟨((posReal_iff _).mp hpos).1, ((posReal_iff _).mp hpos).2, hpos.ne_zero⟩

/-- **pure AR classes**: the numerator is `1`, so the PSD is a positive real wherever `A(ω^k) ≠ 0` -/
theorem ar_psd_pos {ω : F} {nfft : ℕ} (hn : 0 < nfft) (hω : ω ^ nfft = 1) (A : List F)
    (hA : A.length < nfft) (rho fs twoPi : F)
    (hrho : 0 < RCLike.re rho ∧ RCLike.im rho = 0) (hfs : 0 < RCLike.re fs ∧ RCLike.im fs = 0)
    (isReal : Bool) (k : ℕ) (hk : k < psdLen isReal nfft) (hAk : polyAt ω A k ≠ 0) :
    0 < RCLike.re (nth (classPsd (arma2psd (twiddles ω nfft) (some A) none rho fs nfft) isReal nfft
        false twoPi fs) k)
    ∧ RCLike.im (nth (classPsd (arma2psd (twiddles ω nfft) (some A) none rho fs nfft) isReal nfft
        false twoPi fs) k) = 0 := by
  have h := psd_pos_of_no_unit_zeros hn hω (some A) none (fun a h => by cases h; exact hA)
    (fun b h => by cases h) rho fs twoPi hrho hfs isReal false (fun h => by cases h) k hk hAk
    (by simp)
  exact ⟨h.1, h.2.1⟩

/-- **`pma` of order 1 is strictly positive on the whole grid**, for every data set that is not the
zero signal: `|b_1| < 1` and `|ω^k| = 1` give `B(ω^k) = 1 + b_1 ω^k ≠ 0`. -/
theorem ma_psd_pos_order1 (x : List F) (hx : ∃ j, j < x.length ∧ nth x j ≠ 0) (M : ℕ) (b : List F)
    (rho : F) (h : maEstimate x 1 M = .ok (b, rho)) {ω : F} {nfft : ℕ} (hn : 1 < nfft)
    (hω : ω ^ nfft = 1) (fs twoPi : F) (hfs : 0 < RCLike.re fs ∧ RCLike.im fs = 0)
    (isReal : Bool) (k : ℕ) (hk : k < psdLen isReal nfft) :
    0 < RCLike.re (nth (classPsd (arma2psd (twiddles ω nfft) none (some b) rho fs nfft) isReal nfft
        false twoPi fs) k)
    ∧ RCLike.im (nth (classPsd (arma2psd (twiddles ω nfft) none (some b) rho fs nfft) isReal nfft
        false twoPi fs) k) = 0 := by
  have hlen : b.length = 1 := C12.ma_length x 1 M b rho h
  have hb : ‖nth b 0‖ < 1 := ma_b_last_lt_one x 1 M b rho h
  have hB : optPolyAt ω (some b) k ≠ 0 := by
    rw [optPolyAt_some]
    unfold polyAt
    rw [hlen, Finset.sum_range_one]
    exact one_add_mul_ne_zero hb (norm_pow_root_of_unity (by omega) hω _)
  have h := psd_pos_of_no_unit_zeros (by omega) hω none (some b) (fun a h => by cases h)
    (fun b' h => by cases h; omega) rho fs twoPi (ma_rho_pos x hx 1 M b rho h) hfs isReal false
    (fun h => by cases h) k hk (by simp) hB
  exact ⟨h.1, h.2.1⟩

/-- non-vacuity of `psd_pos_of_no_unit_zeros` over `ℝ`: `ω = -1`, `NFFT = 2`, `A = [1/2]`, `B = [1/3]`,
`rho = 5`, `fs = 2`, real data, bin 1 -/
example : 0 < RCLike.re (nth (classPsd (arma2psd (twiddles (-1 : ℝ) 2) (some [1 / 2]) (some [1 / 3])
    5 2 2) true 2 false 7 2) 1) :=
  (psd_pos_of_no_unit_zeros (ω := (-1 : ℝ)) (nfft := 2) (by norm_num) (by norm_num) (some [1 / 2])
    (some [1 / 3]) (fun a h => by cases h; simp) (fun b h => by cases h; simp) 5 2 7
    (by norm_num) (by norm_num) true false (fun h => by cases h) 1 (by simp [psdLen])
    (by simp [polyAt, nth]; norm_num) (by simp [polyAt, nth]; norm_num)).1

/-! ### 8. optimality under the solver's contract; end to end -/

/-- **the AR part minimises the modified Yule–Walker residual energy over the lags `Q+1..lag`**
(`P = Q`), under the contract of the least-squares solver: IF the coefficients `a` satisfy the normal
equations `X_cᴴ (X₁ + X_c a) = 0` of the covariance data matrix `X` of `armaLagSeq R P P lag` (what
`lstsq` promises; the elimination itself is not verified here), THEN for every other `a'`, with row
`i ↔ k = i+P+1`,
`Σ_k |r(k) + Σ_j a'_j r(k-1-j)|² = Σ_k |r(k) + Σ_j a_j r(k-1-j)|² + ‖X_c (a' - a)‖²`, in particular
`Σ_k |r(k) + Σ_j a_j r(k-1-j)|² ≤ Σ_k |r(k) + Σ_j a'_j r(k-1-j)|²`. -/
theorem arma_ar_ls_optimal (R : List F) (P lag : ℕ) (a a' : ℕ → F)
    (hne : ∀ b, 1 ≤ b → b ≤ P →
      ∑ i ∈ range (lag - P), star (mentry (corrmtx (armaLagSeq R P P lag) P .covariance) i b)
        * (mentry (corrmtx (armaLagSeq R P P lag) P .covariance) i 0
            + ∑ j ∈ range P,
                mentry (corrmtx (armaLagSeq R P P lag) P .covariance) i (j + 1) * a j) = 0) :
    ∑ i ∈ range (lag - P), ‖nth R (i + P + 1) + ∑ j ∈ range P, a' j * nth R (i + P + 1 - 1 - j)‖ ^ 2
      = ∑ i ∈ range (lag - P),
          ‖nth R (i + P + 1) + ∑ j ∈ range P, a j * nth R (i + P + 1 - 1 - j)‖ ^ 2
        + ∑ i ∈ range (lag - P), ‖∑ j ∈ range P,
            mentry (corrmtx (armaLagSeq R P P lag) P .covariance) i (j + 1) * (a' j - a j)‖ ^ 2
    ∧ ∑ i ∈ range (lag - P),
          ‖nth R (i + P + 1) + ∑ j ∈ range P, a j * nth R (i + P + 1 - 1 - j)‖ ^ 2
        ≤ ∑ i ∈ range (lag - P),
          ‖nth R (i + P + 1) + ∑ j ∈ range P, a' j * nth R (i + P + 1 - 1 - j)‖ ^ 2 := by
  have key : ∀ (c : ℕ → F) (i : ℕ), i ∈ range (lag - P) →
      ‖mentry (corrmtx (armaLagSeq R P P lag) P .covariance) i 0
          + ∑ j ∈ range P,
              mentry (corrmtx (armaLagSeq R P P lag) P .covariance) i (j + 1) * c j‖ ^ 2
        = ‖nth R (i + P + 1) + ∑ j ∈ range P, c j * nth R (i + P + 1 - 1 - j)‖ ^ 2 := by
    intro c i hi
    have hi' := Finset.mem_range.mp hi
    have h := (arma_ar_is_modified_yw R P lag c (i + P + 1) (by omega) (by omega)).2
    have e : i + P + 1 - (P + 1) = i := by omega
    rw [e] at h
    rw [h]
  have hp := YuleL.ls_pythagoras (lag - P) P
    (fun i j => mentry (corrmtx (armaLagSeq R P P lag) P .covariance) i j) a a' hne
  rw [Finset.sum_congr rfl (key a'), Finset.sum_congr rfl (key a)] at hp
  refine ⟨hp, ?_⟩
  rw [hp]
  exact le_add_of_nonneg_right (Finset.sum_nonneg (fun i _ => by positivity))

/-- **the AR part minimises the modified Yule–Walker residual energy, no solver hypothesis** (`P = Q`,
lawful pivot test `GJL.LawfulIsZero`; the Gauss–Jordan elimination of the model is verified in
`Proofs/Lemmas/GaussJordan.lean`): if `arma_estimate` succeeds with AR part `a`, then with `R` the unbiased
lags, for every `a'`:
`Σ_k |r(k) + Σ_j a'_j r(k-1-j)|² = Σ_k |r(k) + Σ_j a_j r(k-1-j)|² + ‖X_c (a' - a)‖²`, in particular the AR
part has the smallest residual energy over the lags `k = P+1..lag`. -/
theorem arma_ar_ls_optimal_solver [IsZero F] [GJL.LawfulIsZero F] (x : List F) (P lag : ℕ)
    (a b : List F) (rho : F) (h : armaEstimate x P P lag = .ok (a, b, rho)) (a' : ℕ → F) :
    ∑ i ∈ range (lag - P), ‖nth (correlation x x lag .unbiased 1) (i + P + 1)
        + ∑ j ∈ range P, a' j * nth (correlation x x lag .unbiased 1) (i + P + 1 - 1 - j)‖ ^ 2
      = ∑ i ∈ range (lag - P), ‖nth (correlation x x lag .unbiased 1) (i + P + 1)
          + ∑ j ∈ range P, nth a j * nth (correlation x x lag .unbiased 1) (i + P + 1 - 1 - j)‖ ^ 2
        + ∑ i ∈ range (lag - P), ‖∑ j ∈ range P,
            mentry (corrmtx (armaLagSeq (correlation x x lag .unbiased 1) P P lag) P .covariance)
              i (j + 1) * (a' j - nth a j)‖ ^ 2
    ∧ ∑ i ∈ range (lag - P), ‖nth (correlation x x lag .unbiased 1) (i + P + 1)
          + ∑ j ∈ range P, nth a j * nth (correlation x x lag .unbiased 1) (i + P + 1 - 1 - j)‖ ^ 2
        ≤ ∑ i ∈ range (lag - P), ‖nth (correlation x x lag .unbiased 1) (i + P + 1)
          + ∑ j ∈ range P, a' j * nth (correlation x x lag .unbiased 1) (i + P + 1 - 1 - j)‖ ^ 2 := by
  obtain ⟨_, _, _, ⟨e, he⟩, _⟩ := (armaEstimate_ok_iff x P P lag a b rho).mp h
  have hn := (C14.lsFit_normalEq _ _ P a e he).1
  rw [armaLagSeq_length] at hn
  apply arma_ar_ls_optimal (correlation x x lag .unbiased 1) P lag (nth a) a'
  intro c hc1 hcP
  have := hn (c - 1) (by omega)
  have ec : c - 1 + 1 = c := by omega
  simp only [LSL.colR, LSL.col0, LSL.lsRes, ec] at this
  exact this

/-- **end to end** (`parma` on real or complex data): if `arma_estimate` succeeds, the residual of its
AR part is not identically zero, the sampling frequency is a positive real and neither returned
polynomial vanishes at the grid point `ω^k`, then value `k` of the (unscaled) class PSD built from the
returned `(a, b, rho)` is a positive real number, equal to `c·(rho/fs)·|B(ω^k)|²/|A(ω^k)|²`. -/
theorem parma_psd_pos [IsZero F] (x : List F) (P Q lag : ℕ) (a b : List F) (rho : F)
    (h : armaEstimate x P Q lag = .ok (a, b, rho))
    (hres : ∃ i, i < x.length - P ∧
      nth x (i + P) + ∑ j ∈ range P, nth a j * nth x (i + P - j - 1) ≠ 0)
    {ω : F} {nfft : ℕ} (hP : P < nfft) (hQ : Q < nfft) (hω : ω ^ nfft = 1) (fs twoPi : F)
    (hfs : 0 < RCLike.re fs ∧ RCLike.im fs = 0) (isReal : Bool) (k : ℕ)
    (hk : k < psdLen isReal nfft) (hAk : polyAt ω a k ≠ 0) (hBk : polyAt ω b k ≠ 0) :
    nth (classPsd (arma2psd (twiddles ω nfft) (some a) (some b) rho fs nfft) isReal nfft false
          twoPi fs) k
      = (if isReal then 2 else 1)
        * (rho / fs * (polyAt ω b k * star (polyAt ω b k)) / (polyAt ω a k * star (polyAt ω a k)))
    ∧ 0 < RCLike.re (nth (classPsd (arma2psd (twiddles ω nfft) (some a) (some b) rho fs nfft)
        isReal nfft false twoPi fs) k)
    ∧ RCLike.im (nth (classPsd (arma2psd (twiddles ω nfft) (some a) (some b) rho fs nfft)
        isReal nfft false twoPi fs) k) = 0 := by
  obtain ⟨ha, hb⟩ := arma_len x P Q lag a b rho h
  have hr := arma_rho_pos x P Q lag a b rho h hres
  have hn : 0 < nfft := by omega
  have hpos := psd_pos_of_no_unit_zeros hn hω (some a) (some b)
    (fun a' h' => by cases h'; omega) (fun b' h' => by cases h'; omega) rho fs twoPi
    ⟨hr.1, hr.2.1⟩ hfs isReal false (fun h' => by cases h') k hk hAk hBk
  exact ⟨class_psd_eq_arma hn hω a b (by omega) (by omega) rho fs twoPi isReal k hk,
    hpos.1, hpos.2.1⟩

end RC

/-! ### 9. invertibility of the MA part for every `Q` (Schur–Cohn) -/

section Invertible
variable {F : Type} [RCLike F]

/-- **`ma`: invertibility, every `Q`.**  Under the hypotheses of `ma_refl_lt_one` (none beyond success:
the second Levinson recursion of `maEstimate` always has all `|k_i| < 1`), every zero `z` of the MA
polynomial `B(z) = z^Q + b_1 z^{Q-1} + … + b_Q` of the returned coefficients (`[1, b_1..b_Q]` handed to
`numpy.roots`, i.e. `SchurL.polyA b z`) lies strictly inside the unit circle — for any data `x`. -/
theorem ma_invertible (x : List F) (Q M : ℕ) (b : List F) (rho : F)
    (h : maEstimate x Q M = .ok (b, rho)) (z : F)
    (hz : z ^ Q + ∑ j ∈ range Q, nth b j * z ^ (Q - 1 - j) = 0) : ‖z‖ < 1 := by
  obtain ⟨_, _, rfl, _⟩ := (C12.ma_eq_two_yule x Q M b rho).mp h
  exact C12.yule_stable _ (one_cons_nonzero _) Q z hz

/-- the same with the helper definition `SchurL.polyA b z = z^m + Σ_{j<m} b_j z^{m-1-j}` (`m` the
length of `b`): no zero on or outside the unit circle -/
theorem ma_invertible_polyA (x : List F) (Q M : ℕ) (b : List F) (rho : F)
    (h : maEstimate x Q M = .ok (b, rho)) (z : F) (hz : 1 ≤ ‖z‖) : SchurL.polyA b z ≠ 0 := by
  intro h0
  rw [SchurL.polyA_eq _ Q (C12.ma_length x Q M b rho h)] at h0
  exact absurd (ma_invertible x Q M b rho h z h0) (not_lt.mpr hz)

/-- **`ma`: `B` does not vanish on the frequency grid**, every `Q`, any data: for an `nfft`-th root of
unity `ω`, `B(ω^k) = 1 + Σ_j b_j ω^{(j+1)k} ≠ 0`. -/
theorem ma_no_unit_zeros (x : List F) (Q M : ℕ) (b : List F) (rho : F)
    (h : maEstimate x Q M = .ok (b, rho)) {ω : F} {nfft : ℕ} (hn : 0 < nfft) (hω : ω ^ nfft = 1)
    (k : ℕ) : polyAt ω b k ≠ 0 := by
  have hlen : b.length = Q := C12.ma_length x Q M b rho h
  obtain ⟨_, _, rfl, _⟩ := (C12.ma_eq_two_yule x Q M b rho).mp h
  have hw : ‖ω ^ k‖ ≤ 1 := le_of_eq (norm_pow_root_of_unity hn hω k)
  have h1 := C12.yule_no_unit_zeros _ (one_cons_nonzero (aryule x M .biased).A) Q (ω ^ k) hw
  unfold polyAt
  rw [hlen]
  have e : ∀ j ∈ range Q,
      nth (aryule ((1 : F) :: (aryule x M .biased).A) Q .biased).A j * ω ^ ((j + 1) * k)
        = nth (aryule ((1 : F) :: (aryule x M .biased).A) Q .biased).A j * (ω ^ k) ^ (j + 1) := by
    intro j _
    rw [pow_mul']
  rw [Finset.sum_congr rfl e]
  exact h1

/-- **`pma` is strictly positive on the whole grid, every `Q`**, for every data set that is not the
zero signal (generalises `ma_psd_pos_order1`). -/
theorem ma_psd_pos (x : List F) (hx : ∃ j, j < x.length ∧ nth x j ≠ 0) (Q M : ℕ) (b : List F)
    (rho : F) (h : maEstimate x Q M = .ok (b, rho)) {ω : F} {nfft : ℕ} (hn : Q < nfft)
    (hω : ω ^ nfft = 1) (fs twoPi : F) (hfs : 0 < RCLike.re fs ∧ RCLike.im fs = 0)
    (isReal : Bool) (k : ℕ) (hk : k < psdLen isReal nfft) :
    0 < RCLike.re (nth (classPsd (arma2psd (twiddles ω nfft) none (some b) rho fs nfft) isReal nfft
        false twoPi fs) k)
    ∧ RCLike.im (nth (classPsd (arma2psd (twiddles ω nfft) none (some b) rho fs nfft) isReal nfft
        false twoPi fs) k) = 0 := by
  have hlen : b.length = Q := C12.ma_length x Q M b rho h
  have hB : optPolyAt ω (some b) k ≠ 0 := by
    rw [optPolyAt_some]
    exact ma_no_unit_zeros x Q M b rho h (by omega) hω k
  have h := psd_pos_of_no_unit_zeros (by omega) hω none (some b) (fun a h => by cases h)
    (fun b' h => by cases h; omega) rho fs twoPi (ma_rho_pos x hx Q M b rho h) hfs isReal false
    (fun h => by cases h) k hk (by simp) hB
  exact ⟨h.1, h.2.1⟩

/-- **`pyule` is strictly positive and finite on the whole grid, every order**: for a non-zero
signal the Yule–Walker polynomial has no zero on the unit circle, so the AR class PSD built from
`aryule` is a positive real number at every bin. -/
theorem yule_psd_pos (x : List F) (hx : ∃ j, j < x.length ∧ nth x j ≠ 0) (p : ℕ) {ω : F} {nfft : ℕ}
    (hn : p < nfft) (hω : ω ^ nfft = 1) (fs twoPi : F)
    (hfs : 0 < RCLike.re fs ∧ RCLike.im fs = 0) (isReal : Bool) (k : ℕ)
    (hk : k < psdLen isReal nfft) :
    0 < RCLike.re (nth (classPsd (arma2psd (twiddles ω nfft) (some (aryule x p .biased).A) none
        (aryule x p .biased).P fs nfft) isReal nfft false twoPi fs) k)
    ∧ RCLike.im (nth (classPsd (arma2psd (twiddles ω nfft) (some (aryule x p .biased).A) none
        (aryule x p .biased).P fs nfft) isReal nfft false twoPi fs) k) = 0 := by
  have hlen : (aryule x p .biased).A.length = p := (C12.aryule_eq x p).2.2.2.2.1
  have hp := C12.yule_stable_params x hx p
  have hA : polyAt ω (aryule x p .biased).A k ≠ 0 := by
    have hw : ‖ω ^ k‖ ≤ 1 := le_of_eq (norm_pow_root_of_unity (by omega) hω k)
    have h1 := C12.yule_no_unit_zeros x hx p (ω ^ k) hw
    unfold polyAt
    rw [hlen]
    have e : ∀ j ∈ range p, nth (aryule x p .biased).A j * ω ^ ((j + 1) * k)
        = nth (aryule x p .biased).A j * (ω ^ k) ^ (j + 1) := by
      intro j _
      rw [pow_mul']
    rw [Finset.sum_congr rfl e]
    exact h1
  exact ar_psd_pos (by omega) hω _ (by omega) _ fs twoPi
    ((posReal_iff _).mp (posReal_of_star _ hp.1 hp.2.1)) hfs isReal k hk hA

section ArmaInv
variable [IsZero F]

/-- **`arma_estimate`: the MA part is invertible, every `Q`, any data.**  The MA stage is
`ma(resid, Q, 2Q)`, whose second Levinson recursion always has `|k_i| < 1`; hence every zero of
`z^Q + b_1 z^{Q-1} + … + b_Q` lies strictly inside the unit circle, and `B(ω^k) ≠ 0` on the whole
frequency grid (no residual hypothesis is needed for this part). -/
theorem arma_ma_invertible (x : List F) (P Q lag : ℕ) (a b : List F) (rho : F)
    (h : armaEstimate x P Q lag = .ok (a, b, rho)) :
    (∀ z : F, z ^ Q + ∑ j ∈ range Q, nth b j * z ^ (Q - 1 - j) = 0 → ‖z‖ < 1)
    ∧ ∀ {ω : F} {nfft : ℕ}, 0 < nfft → ω ^ nfft = 1 → ∀ k, polyAt ω b k ≠ 0 := by
  obtain ⟨_, _, _, _, hma⟩ := (armaEstimate_ok_iff x P Q lag a b rho).mp h
  exact ⟨fun z hz => ma_invertible _ Q (2 * Q) b rho hma z hz,
    fun hn hω k => ma_no_unit_zeros _ Q (2 * Q) b rho hma hn hω k⟩

end ArmaInv

/-- non-vacuity: `ma([1,2,0,1,3], Q=2, M=3)` succeeds (`0 < Q < M`), so `ma_invertible` applies with
`Q = 2` -/
example : ∃ b rho, maEstimate ([1, 2, 0, 1, 3] : List ℝ) 2 3 = .ok (b, rho) :=
  ⟨_, _, ((C12.ma_eq_two_yule _ 2 3 _ _).mpr ⟨by omega, by omega, rfl, rfl⟩)⟩

end Invertible

end SpecVerif.C15
