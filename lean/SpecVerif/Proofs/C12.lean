import SpecVerif.Proofs.Lemmas.Yule
import SpecVerif.Proofs.Lemmas.SchurCohn
import SpecVerif.Proofs.Lemmas.LpcLsf
import Mathlib.Algebra.Star.Rat
import Mathlib.Analysis.Complex.Basic
/-
  C12 — the Yule–Walker estimator `aryule` (biased autocorrelation + Levinson) and the two-stage
  moving-average estimator `maEstimate`.

  Property theorems only (helper lemmas live in `Proofs/Lemmas/Yule.lean`, namespace
  `SpecVerif.YuleL`; the facts about `correlation`, `levRun` and `poly2ac` are reused from C09, C10
  and C11).  `K` is any field with an involution; the order-dependent clauses (positive variance,
  `|k_i| < 1`, positive definiteness, uniqueness of the least-squares solution) are stated for
  `F` with `[RCLike F]`, i.e. for real *and* complex data.

  Conventions of the model: `nth l i` is zero-padded indexing, `N = x.length`, the biased lag `k` is
  `Σ_{j<N-k} x[j+k]·conj x[j] / N`; `(aryule x p .biased).A` are the coefficients `a_1..a_p` (no
  leading 1), `.P` the noise variance, `.ref` the reflection coefficients.  "`x` is not the zero
  signal" is `∃ j, j < x.length ∧ nth x j ≠ 0`.  `mentry (corrmtx x p .autocorrelation) i j` is entry
  `(i,j)` of the `(N+p)×(p+1)` 'autocorrelation' data matrix, the zero-padded `x[i-j]`.

  The `lpc` clause ("the same coefficients are obtained, for real data, by `lpc`") is PROVED in
  section 9 (`lpc_acf_eq`, `lpc_acf_real`, `lpc_eq_yule`): with `nfft ≥ 2m-1` the FFT route
  `real(ifft(|fft(x, nfft)|²))/(m-1)` is the raw autocorrelation divided by `m-1` (Wiener–Khinchin +
  inverse DFT, no wrap-around), i.e. `m/(m-1)` times the biased lags for real data, and the Levinson
  recursion is invariant under that scaling: same coefficients and reflection coefficients as
  `aryule`, error multiplied by `m/(m-1)`.  The DFT is the model's parameter (a primitive `nfft`-th
  root of unity `ω` with `star ω = ω⁻¹`); helper lemmas in `Proofs/Lemmas/LpcLsf.lean` (namespace
  `SpecVerif.LpcL`).
  Stability is now PROVED for every order (section 8, `yule_stable`): for a non-zero signal *all*
  roots of the order-`p` polynomial `z^p + a_1 z^{p-1} + … + a_p` lie strictly inside the unit
  circle.  It follows from `|k_i| < 1` for all `i` (`yule_stable_params`) by the Schur–Cohn theorem
  for the step-up recursion, formalised in `Proofs/Lemmas/SchurCohn.lean` (namespace
  `SpecVerif.SchurL`); `yule_stable_order1` is the special case `p = 1`.
-/
namespace SpecVerif.C12
open Finset SpecVerif SpecVerif.YuleL

section Generic
variable {K : Type} [Field K] [StarRing K]

/-! ### 1. unfolding -/

/-- **`aryule` = Levinson on the biased lags**: `r0 = re r[0]`, `T = r[1..p]` with
`r[k] = Σ_{j<N-k} x[j+k]·conj x[j] / N`; `p` coefficients and `p` reflection coefficients come back. -/
theorem aryule_eq (x : List K) (p : ℕ) :
    aryule x p .biased
        = levRun (rePart (nth (correlation x x p .biased 1) 0)) (correlation x x p .biased 1).tail p
    ∧ (correlation x x p .biased (1 : K)).tail.length = p
    ∧ (∀ j, j < p → nth (correlation x x p .biased (1 : K)).tail j
        = (∑ n ∈ range (x.length - (j + 1)), nth x (n + (j + 1)) * star (nth x n)) / (x.length : K))
    ∧ nth (correlation x x p .biased (1 : K)) 0
        = (∑ n ∈ range x.length, nth x n * star (nth x n)) / (x.length : K)
    ∧ (aryule x p .biased).A.length = p ∧ (aryule x p .biased).ref.length = p := by
  refine ⟨rfl, yuleT_length x p 1, ?_, ?_, ?_, ?_⟩
  · intro j hj
    rw [nth_tail, C09.correlation_def_biased x x p (j + 1) (by omega) 1, Nat.max_self]
  · rw [C09.correlation_def_biased x x p 0 (Nat.zero_le _) 1, Nat.max_self]
    simp only [Nat.sub_zero, Nat.add_zero]
  · rw [aryule_unfold]; exact (C10.levRun_lengths _ _ p).1
  · rw [aryule_unfold]; exact (C10.levRun_lengths _ _ p).2

/-- lag 0 is real (`2 ≠ 0`): taking the real part changes nothing, so `aryule` is Levinson on
`r[0], r[1..p]` -/
theorem aryule_r0_real (x : List K) (p : ℕ) (h2 : (2 : K) ≠ 0) :
    star (nth (correlation x x p .biased (1 : K)) 0) = nth (correlation x x p .biased (1 : K)) 0
    ∧ rePart (nth (correlation x x p .biased (1 : K)) 0) = nth (correlation x x p .biased (1 : K)) 0
    ∧ aryule x p .biased
        = levRun (nth (correlation x x p .biased 1) 0) (correlation x x p .biased 1).tail p :=
  ⟨(C09.biased_r0_eq_meanPow x p 1).2, rePart_r0 x p 1 h2, aryule_eq_levRun x p h2⟩

/-! ### 2. the data matrix of a non-zero signal has trivial kernel -/

/-- **injectivity**: if `x` is not the zero signal, `X v = 0` forces `v = 0` for the
`(N+m)×(m+1)` 'autocorrelation' data matrix `X[i][j] = x[i-j]` (any field). -/
theorem autocorr_matrix_injective (x : List K) (m : ℕ) (hx : ∃ j, j < x.length ∧ nth x j ≠ 0)
    (v : ℕ → K)
    (hv : ∀ i, i < x.length + m →
      ∑ j ∈ range (m + 1), mentry (corrmtx x m .autocorrelation) i j * v j = 0) :
    ∀ j, j ≤ m → v j = 0 :=
  corrmtx_injective x m hx v hv

/-- non-vacuity: `x = [0, 3, 1]` over `ℚ` is not the zero signal (its first sample is zero) -/
example : ∃ j, j < ([0, 3, 1] : List ℚ).length ∧ nth ([0, 3, 1] : List ℚ) j ≠ 0 :=
  ⟨1, by simp, by simp [nth]⟩

/-! ### 5 (generic part). the model's autocorrelation matches the sample autocorrelation -/

/-- **matching property, any field**: when the returned variance is non-zero (and `2 ≠ 0`, `p ≥ 1`),
`poly2ac` (= `rlevinson`) of the Yule–Walker polynomial and variance returns exactly the biased lags
`0..p` of the data. -/
theorem yule_matches_acf_of_ne_zero (x : List K) (p : ℕ) (hp : 1 ≤ p) (h2 : (2 : K) ≠ 0)
    (hP : (aryule x p .biased).P ≠ 0) :
    poly2ac (aryule x p .biased).A (aryule x p .biased).P = correlation x x p .biased 1
    ∧ ∀ k, k ≤ p → nth (poly2ac (aryule x p .biased).A (aryule x p .biased).P) k
        = (∑ j ∈ range (x.length - k), nth x (j + k) * star (nth x j)) / (x.length : K) := by
  have hlen := yuleT_length x p (1 : K)
  have hT : (correlation x x p .biased (1 : K)).tail ≠ [] := by
    intro h
    rw [h] at hlen
    simp at hlen
    omega
  have h : poly2ac (aryule x p .biased).A (aryule x p .biased).P
      = correlation x x p .biased 1 := by
    rw [aryule_eq_levRun x p h2] at hP ⊢
    have hP' : (levRun (nth (correlation x x p .biased 1) 0) (correlation x x p .biased 1).tail
        (correlation x x p .biased (1 : K)).tail.length).P ≠ 0 := by
      rw [hlen]; exact hP
    have := C11.poly2ac_ac2poly _ _ hT hP'
    rw [hlen] at this
    rw [this, cons_nth_tail _ (yuleR_ne_nil x p 1)]
  refine ⟨h, ?_⟩
  intro k hk
  rw [h, C09.correlation_def_biased x x p k hk 1, Nat.max_self]

/-! ### 6 (generic part). Yule–Walker solves the least-squares normal equations -/

/-- **normal equations, any field**: with `e_i = X[i][0] + Σ_{j<p} X[i][j+1]·a_j` the residual of the
least-squares problem `min ‖X₁ + X_c a‖²` on the 'autocorrelation' data matrix, the Yule–Walker
coefficients satisfy `X_cᴴ e = 0` (columns `b = 1..p`), and `X₁ᴴ e = N·P` — provided `N ≠ 0`,
`2 ≠ 0` in `K` and the returned variance is non-zero. -/
theorem yule_eq_ls_of_ne_zero (x : List K) (p : ℕ) (h2 : (2 : K) ≠ 0) (hN : (x.length : K) ≠ 0)
    (hP : (aryule x p .biased).P ≠ 0) :
    (∀ b, 1 ≤ b → b ≤ p →
      ∑ i ∈ range (x.length + p), star (mentry (corrmtx x p .autocorrelation) i b)
        * (mentry (corrmtx x p .autocorrelation) i 0
            + ∑ j ∈ range p, mentry (corrmtx x p .autocorrelation) i (j + 1)
                * nth (aryule x p .biased).A j) = 0)
    ∧ ∑ i ∈ range (x.length + p), star (mentry (corrmtx x p .autocorrelation) i 0)
        * (mentry (corrmtx x p .autocorrelation) i 0
            + ∑ j ∈ range p, mentry (corrmtx x p .autocorrelation) i (j + 1)
                * nth (aryule x p .biased).A j) = (x.length : K) * (aryule x p .biased).P := by
  constructor
  · intro b hb1 hb
    rw [aryule_normal_eq x p h2 hN hP b hb, if_neg (by omega)]
  · rw [aryule_normal_eq x p h2 hN hP 0 (Nat.zero_le _), if_pos rfl]

/-- non-vacuity of the hypotheses `2 ≠ 0`, `N ≠ 0`, `P ≠ 0`: `x = [1, 2, 3]` over `ℚ`, order 1, has
`r = [14/3, 8/3]`, `a_1 = -4/7` and variance `22/7` -/
example : (2 : ℚ) ≠ 0 ∧ ((([1, 2, 3] : List ℚ).length : ℕ) : ℚ) ≠ 0
    ∧ (aryule ([1, 2, 3] : List ℚ) 1 .biased).A = [-4 / 7]
    ∧ (aryule ([1, 2, 3] : List ℚ) 1 .biased).P = 22 / 7 := by
  refine ⟨by norm_num, by norm_num, ?_, ?_⟩ <;>
  norm_num [aryule, correlation, corrRaw, rePart, levRun, levStep, levup, vec, sumR, nth, abs2,
    conj, List.range, List.range.loop, Finset.sum_range_succ]

end Generic

/-! ### real or complex data -/

section RC
variable {F : Type} [RCLike F]

/-! ### 3. positive definiteness -/

/-- **positive definiteness**: for a non-zero signal the Hermitian Toeplitz form of the biased
autocorrelation on the leading `(p+1)×(p+1)` block is positive definite, for every `p` (even
`p ≥ N`): `vᴴ T v = ‖X v‖²/N > 0` for `v ≠ 0`. -/
theorem yule_toeplitz_pd (x : List F) (hx : ∃ j, j < x.length ∧ nth x j ≠ 0) (p : ℕ) (rms2 : F)
    (v : ℕ → F) (hv : ∃ i, i ≤ p ∧ v i ≠ 0) :
    ∑ a ∈ range (p + 1), ∑ b ∈ range (p + 1),
        star (v a) * hermToep (correlation x x p .biased rms2) a b * v b
      = (((∑ i ∈ range (x.length + p),
            ‖∑ b ∈ range (p + 1), mentry (corrmtx x p .autocorrelation) i b * v b‖ ^ 2)
          / (x.length : ℝ) : ℝ) : F)
    ∧ 0 < (∑ i ∈ range (x.length + p),
            ‖∑ b ∈ range (p + 1), mentry (corrmtx x p .autocorrelation) i b * v b‖ ^ 2)
          / (x.length : ℝ) := by
  have hN : 0 < x.length := by
    obtain ⟨j, hj, _⟩ := hx
    omega
  have h := quad_form_eq_rc x hN p rms2 v
  refine ⟨h, ?_⟩
  have hpos := toeplitz_pd_rc x hx p rms2 v hv
  rwa [h, RCLike.ofReal_re] at hpos

/-! ### 4. positive variance, reflection coefficients inside the unit disc -/

/-- **stable parameters**: for a non-zero real or complex signal and every order `p` (no `p < N`
needed) the Yule–Walker variance is real and `> 0` and every reflection coefficient has modulus
`< 1`. -/
theorem yule_stable_params (x : List F) (hx : ∃ j, j < x.length ∧ nth x j ≠ 0) (p : ℕ) :
    star (aryule x p .biased).P = (aryule x p .biased).P
    ∧ 0 < RCLike.re (aryule x p .biased).P
    ∧ ∀ i, i < p → ‖nth (aryule x p .biased).ref i‖ < 1 :=
  ⟨(aryule_P_pos x hx p).1, (aryule_P_pos x hx p).2, (aryule_pd_params x hx p).2⟩

/-- the last coefficient of the polynomial is the last reflection coefficient, hence of modulus
`< 1` (necessary for all roots to be inside the unit circle: it is ± their product) -/
theorem yule_last_coeff_lt_one (x : List F) (hx : ∃ j, j < x.length ∧ nth x j ≠ 0) (p : ℕ) :
    ‖nth (aryule x (p + 1) .biased).A p‖ < 1 := by
  have h := (aryule_pd_params x hx (p + 1)).2 p (by omega)
  rw [aryule_unfold] at h ⊢
  rwa [C10.levinson_last_coeff]

/-- **order-1 stability**: the root of `z + a_1` lies strictly inside the unit circle -/
theorem yule_stable_order1 (x : List F) (hx : ∃ j, j < x.length ∧ nth x j ≠ 0)
    (z : F) (hz : z + nth (aryule x 1 .biased).A 0 = 0) : ‖z‖ < 1 := by
  rw [aryule_eq_levRun x 1 two_ne_zero_rc] at hz
  exact C10.levinson_stable_order1 _ _ (C09.biased_r0_eq_meanPow x 1 1).2
    (by rw [yuleT_length]) (nth (correlation x x 1 .biased 1)) rfl
    (fun j => (nth_tail _ j).symm) (yule_pd_form x hx 1 1) z hz

/-- non-vacuity: a real and a complex non-zero signal -/
example : ∃ j, j < ([1, -2, 3] : List ℝ).length ∧ nth ([1, -2, 3] : List ℝ) j ≠ 0 :=
  ⟨0, by simp, by simp [nth]⟩

example : ∃ j, j < ([0, Complex.I] : List ℂ).length ∧ nth ([0, Complex.I] : List ℂ) j ≠ 0 :=
  ⟨1, by simp, by simp [nth]⟩

/-! ### 5. matching property -/

/-- **matching property**: for a non-zero real or complex signal and `p ≥ 1`, the first `p+1`
autocorrelation lags implied by the fitted AR model (`poly2ac` = `rlevinson` of the polynomial and the
variance) are the biased sample autocorrelation lags of the data. -/
theorem yule_matches_acf (x : List F) (hx : ∃ j, j < x.length ∧ nth x j ≠ 0) (p : ℕ) (hp : 1 ≤ p) :
    poly2ac (aryule x p .biased).A (aryule x p .biased).P = correlation x x p .biased 1
    ∧ ∀ k, k ≤ p → nth (poly2ac (aryule x p .biased).A (aryule x p .biased).P) k
        = (∑ j ∈ range (x.length - k), nth x (j + k) * star (nth x j)) / (x.length : F) :=
  yule_matches_acf_of_ne_zero x p hp two_ne_zero_rc (aryule_P_ne_zero x hx p)

/-! ### 6. least squares on the 'autocorrelation' data matrix -/

/-- **Yule–Walker = least squares (autocorrelation method)**: the coefficients satisfy the normal
equations `X_cᴴ (X₁ + X_c a) = 0`, and `X₁ᴴ (X₁ + X_c a) = N·P`. -/
theorem yule_eq_ls (x : List F) (hx : ∃ j, j < x.length ∧ nth x j ≠ 0) (p : ℕ) :
    (∀ b, 1 ≤ b → b ≤ p →
      ∑ i ∈ range (x.length + p), star (mentry (corrmtx x p .autocorrelation) i b)
        * (mentry (corrmtx x p .autocorrelation) i 0
            + ∑ j ∈ range p, mentry (corrmtx x p .autocorrelation) i (j + 1)
                * nth (aryule x p .biased).A j) = 0)
    ∧ ∑ i ∈ range (x.length + p), star (mentry (corrmtx x p .autocorrelation) i 0)
        * (mentry (corrmtx x p .autocorrelation) i 0
            + ∑ j ∈ range p, mentry (corrmtx x p .autocorrelation) i (j + 1)
                * nth (aryule x p .biased).A j) = (x.length : F) * (aryule x p .biased).P := by
  have hN : ((x.length : ℕ) : F) ≠ 0 := by
    obtain ⟨j, hj, _⟩ := hx
    have : x.length ≠ 0 := by omega
    exact_mod_cast this
  exact yule_eq_ls_of_ne_zero x p two_ne_zero_rc hN (aryule_P_ne_zero x hx p)

/-- **uniqueness**: the normal equations have no other solution (`XᴴX` is positive definite), so the
Yule–Walker coefficients are *the* least-squares solution. -/
theorem yule_ls_unique (x : List F) (hx : ∃ j, j < x.length ∧ nth x j ≠ 0) (p : ℕ) (a : ℕ → F)
    (ha : ∀ b, 1 ≤ b → b ≤ p →
      ∑ i ∈ range (x.length + p), star (mentry (corrmtx x p .autocorrelation) i b)
        * (mentry (corrmtx x p .autocorrelation) i 0
            + ∑ j ∈ range p, mentry (corrmtx x p .autocorrelation) i (j + 1) * a j) = 0) :
    ∀ j, j < p → a j = nth (aryule x p .biased).A j :=
  normal_eq_unique (x.length + p) p (fun i j => mentry (corrmtx x p .autocorrelation) i j)
    (fun v hv => corrmtx_injective x p hx v hv) a (nth (aryule x p .biased).A) ha
    (yule_eq_ls x hx p).1

/-- **Yule–Walker minimises the least-squares criterion**: for any other coefficients `a'`,
`‖X₁ + X_c a'‖² = ‖X₁ + X_c a‖² + ‖X_c (a' - a)‖²`, and the minimum `‖X₁ + X_c a‖²` is `N·P`
(`P` the returned variance, which is real). -/
theorem yule_ls_minimum (x : List F) (hx : ∃ j, j < x.length ∧ nth x j ≠ 0) (p : ℕ) (a' : ℕ → F) :
    ∑ i ∈ range (x.length + p), ‖mentry (corrmtx x p .autocorrelation) i 0
          + ∑ j ∈ range p, mentry (corrmtx x p .autocorrelation) i (j + 1) * a' j‖ ^ 2
      = ∑ i ∈ range (x.length + p), ‖mentry (corrmtx x p .autocorrelation) i 0
          + ∑ j ∈ range p, mentry (corrmtx x p .autocorrelation) i (j + 1)
              * nth (aryule x p .biased).A j‖ ^ 2
        + ∑ i ∈ range (x.length + p), ‖∑ j ∈ range p,
            mentry (corrmtx x p .autocorrelation) i (j + 1)
              * (a' j - nth (aryule x p .biased).A j)‖ ^ 2
    ∧ ∑ i ∈ range (x.length + p), ‖mentry (corrmtx x p .autocorrelation) i 0
          + ∑ j ∈ range p, mentry (corrmtx x p .autocorrelation) i (j + 1)
              * nth (aryule x p .biased).A j‖ ^ 2
        = (x.length : ℝ) * RCLike.re (aryule x p .biased).P := by
  constructor
  · exact ls_pythagoras (x.length + p) p (fun i j => mentry (corrmtx x p .autocorrelation) i j)
      (nth (aryule x p .biased).A) a' (yule_eq_ls x hx p).1
  · have hN : ((x.length : ℕ) : F) ≠ 0 := by
      obtain ⟨j, hj, _⟩ := hx
      have : x.length ≠ 0 := by omega
      exact_mod_cast this
    have h := aryule_resid_energy x p two_ne_zero_rc hN (aryule_P_ne_zero x hx p)
    rw [sum_star_mul_self_rc] at h
    have h' := congrArg RCLike.re h
    rwa [RCLike.ofReal_re, ← RCLike.ofReal_natCast, RCLike.re_ofReal_mul] at h'

end RC

/-! ### 7. the moving-average estimator: two Yule–Walker fits -/

section MA
variable {K : Type} [Field K] [StarRing K]

/-- **`ma` = two Yule–Walker fits**: it returns iff `0 < Q < M`, and then the MA coefficients are the
AR(`Q`) Yule–Walker coefficients of the sequence `[1, a_1..a_M]` of the long AR(`M`) fit and the
variance is that of the long fit. -/
theorem ma_eq_two_yule (x : List K) (Q M : ℕ) (b : List K) (rho : K) :
    maEstimate x Q M = .ok (b, rho) ↔
      0 < Q ∧ Q < M ∧ b = (aryule ((1 : K) :: (aryule x M .biased).A) Q .biased).A
        ∧ rho = (aryule x M .biased).P := by
  unfold maEstimate
  by_cases h : Q = 0 ∨ Q ≥ M
  · rw [if_pos h]
    constructor
    · intro he; cases he
    · rintro ⟨h1, h2, _⟩; omega
  · rw [if_neg h]
    simp only [Except.ok.injEq, Prod.mk.injEq]
    constructor
    · rintro ⟨rfl, rfl⟩
      exact ⟨by omega, by omega, rfl, rfl⟩
    · rintro ⟨_, _, rfl, rfl⟩
      exact ⟨rfl, rfl⟩

/-- `ValueError` exactly when `Q = 0` or `Q ≥ M` -/
theorem ma_error (x : List K) (Q M : ℕ) :
    maEstimate x Q M = .error "value" ↔ Q = 0 ∨ Q ≥ M := by
  unfold maEstimate
  by_cases h : Q = 0 ∨ Q ≥ M
  · rw [if_pos h]; exact ⟨fun _ => h, fun _ => rfl⟩
  · rw [if_neg h]
    constructor
    · intro he; cases he
    · intro h'; exact absurd h' h

/-- `Q` MA coefficients are returned -/
theorem ma_length (x : List K) (Q M : ℕ) (b : List K) (rho : K)
    (h : maEstimate x Q M = .ok (b, rho)) : b.length = Q := by
  obtain ⟨_, _, rfl, _⟩ := (ma_eq_two_yule x Q M b rho).mp h
  exact (aryule_eq _ Q).2.2.2.2.1

/-- non-vacuity: `Q = 1`, `M = 2` is admissible -/
example : (0 : ℕ) < 1 ∧ (1 : ℕ) < 2 := by omega

end MA

/-! ### 8. stability for every order (Schur–Cohn) -/

section Stability
variable {F : Type} [RCLike F]

/-- **stability, every order**: for a non-zero real or complex signal and every order `p`, every root
`z` of the Yule–Walker prediction polynomial `A(z) = z^p + a_1 z^{p-1} + … + a_p` (the polynomial
`[1, a_1..a_p]` handed to `numpy.roots`, i.e. `SchurL.polyA (aryule x p .biased).A z`) lies strictly
inside the unit circle: the fitted AR model is stable. -/
theorem yule_stable (x : List F) (hx : ∃ j, j < x.length ∧ nth x j ≠ 0) (p : ℕ) (z : F)
    (hz : z ^ p + ∑ j ∈ range p, nth (aryule x p .biased).A j * z ^ (p - 1 - j) = 0) :
    ‖z‖ < 1 := by
  have hk := (yule_stable_params x hx p).2.2
  rw [aryule_unfold] at hk hz
  exact SchurL.levRun_root_lt_one _ _ p hk z hz

/-- the same with the helper definition `SchurL.polyA a z = z^m + Σ_{j<m} a_j z^{m-1-j}` (`m` the
length of `a`): no zero on or outside the unit circle -/
theorem yule_stable_polyA (x : List F) (hx : ∃ j, j < x.length ∧ nth x j ≠ 0) (p : ℕ) (z : F)
    (hz : 1 ≤ ‖z‖) : SchurL.polyA (aryule x p .biased).A z ≠ 0 := by
  intro h
  rw [SchurL.polyA_eq _ p (aryule_eq x p).2.2.2.2.1] at h
  exact absurd (yule_stable x hx p z h) (not_lt.mpr hz)

/-- **no pole on the frequency grid**: the polynomial `1 + a_1 w + … + a_p w^p` evaluated by the PSD
code has no zero in the closed unit disc, in particular none with `|w| = 1`. -/
theorem yule_no_unit_zeros (x : List F) (hx : ∃ j, j < x.length ∧ nth x j ≠ 0) (p : ℕ) (w : F)
    (hw : ‖w‖ ≤ 1) : 1 + ∑ j ∈ range p, nth (aryule x p .biased).A j * w ^ (j + 1) ≠ 0 := by
  have hk := (yule_stable_params x hx p).2.2
  rw [aryule_unfold] at hk ⊢
  exact SchurL.levRun_rev_ne_zero _ _ p hk w hw

/-- non-vacuity: a non-zero real signal, order 2 (the hypothesis is the same as in
`yule_stable_params`); and the order-1 theorem is the instance `p = 1` -/
example : ∃ j, j < ([1, -2, 3, 1] : List ℝ).length ∧ nth ([1, -2, 3, 1] : List ℝ) j ≠ 0 :=
  ⟨0, by simp, by simp [nth]⟩

example (x : List F) (hx : ∃ j, j < x.length ∧ nth x j ≠ 0)
    (z : F) (hz : z + nth (aryule x 1 .biased).A 0 = 0) : ‖z‖ < 1 :=
  yule_stable x hx 1 z (by simpa using hz)

end Stability

/-! ### 9. `lpc`: the FFT-based autocorrelation gives the same coefficients (real data) -/

section Lpc
variable {K : Type} [Field K] [StarRing K]

/-- **the autocorrelation sequence of `lpc`**: `R = real(ifft(|fft(x, nfft)|²))/(m-1)` with
`nfft ≥ 2m-1` (`m = len x`, the code takes `nfft = 2**nextpow2(2m-1)`), `ω` a primitive `nfft`-th root
of unity with `conj ω = ω⁻¹` (`fft` uses the table of `ω`, `ifft` the table of `ω⁻¹` and the factor
`1/nfft`): every lag `d < m` is the real part of the raw autocorrelation `Σ_{n<m-d} x[n+d]·conj x[n]`
divided by `m-1` — no circular wrap-around. -/
theorem lpc_acf_eq {ω : K} {nfft : ℕ} (hω : IsPrimitiveRoot ω nfft) (hstar : star ω = ω⁻¹)
    (hn0 : (nfft : K) ≠ 0) (x : List K) (hnfft : 2 * x.length - 1 ≤ nfft) (d : ℕ)
    (hd : d < x.length) :
    nth (lpcAcf (twiddles ω nfft) (twiddles ω⁻¹ nfft) x nfft) d
      = rePart (∑ n ∈ range (x.length - d), nth x (n + d) * star (nth x n))
          / ((x.length - 1 : ℕ) : K) :=
  LpcL.lpcAcf_eq hω hstar hn0 x hnfft d hd

/-- for real data (every sample self-adjoint) the sequence handed to LEVINSON by `lpc` is
`m/(m-1)` times the biased autocorrelation used by `aryule`, at every lag `d ≤ maxlags`, `d < m` -/
theorem lpc_acf_real {ω : K} {nfft : ℕ} (hω : IsPrimitiveRoot ω nfft) (hstar : star ω = ω⁻¹)
    (h2 : (2 : K) ≠ 0) (hn0 : (nfft : K) ≠ 0) (x : List K)
    (hreal : ∀ n, star (nth x n) = nth x n) (hm1 : ((x.length - 1 : ℕ) : K) ≠ 0)
    (hm : (x.length : K) ≠ 0) (hnfft : 2 * x.length - 1 ≤ nfft) (maxlags d : ℕ)
    (hd : d < x.length) (hdl : d ≤ maxlags) (rms2 : K) :
    nth (lpcAcf (twiddles ω nfft) (twiddles ω⁻¹ nfft) x nfft) d
      = (x.length : K) / ((x.length - 1 : ℕ) : K) * nth (correlation x x maxlags .biased rms2) d := by
  rw [LpcL.lpcAcf_eq hω hstar hn0 x hnfft d hd,
    rePart_of_star_eq h2 (LpcL.rawCorr_star_real _ _ hreal d),
    C09.correlation_def_biased x x maxlags d hdl rms2, Nat.max_self]
  unfold rawCorr
  field_simp

/-- **`lpc` and `aryule` agree on real data**: for a real signal of `m ≥ 2` samples
(`(m-1 : K) ≠ 0`, `(m : K) ≠ 0`), order `p ≤ m-1` and `nfft ≥ 2m-1`, `lpc(x, p)` returns the AR
coefficients and reflection coefficients of `aryule(x, p)` (biased Yule–Walker), and its prediction
error is `m/(m-1)` times the Yule–Walker variance.  (`K` is any field with involution containing the
root of unity, e.g. `ℂ` with real-valued data `ℝ ⊂ ℂ`.) -/
theorem lpc_eq_yule {ω : K} {nfft : ℕ} (hω : IsPrimitiveRoot ω nfft) (hstar : star ω = ω⁻¹)
    (h2 : (2 : K) ≠ 0) (hn0 : (nfft : K) ≠ 0) (x : List K)
    (hreal : ∀ n, star (nth x n) = nth x n) (hm1 : ((x.length - 1 : ℕ) : K) ≠ 0)
    (hm : (x.length : K) ≠ 0) (hnfft : 2 * x.length - 1 ≤ nfft) (p : ℕ) (hp : p ≤ x.length - 1) :
    (lpc (twiddles ω nfft) (twiddles ω⁻¹ nfft) x nfft p).A = (aryule x p .biased).A
    ∧ (lpc (twiddles ω nfft) (twiddles ω⁻¹ nfft) x nfft p).ref = (aryule x p .biased).ref
    ∧ (lpc (twiddles ω nfft) (twiddles ω⁻¹ nfft) x nfft p).P
        = (x.length : K) / ((x.length - 1 : ℕ) : K) * (aryule x p .biased).P := by
  have hr : ∀ d, d ≤ p → nth (correlation x x p .biased (1 : K)) d
      = rawCorr x.length (nth x) d / (x.length : K) := by
    intro d hd
    rw [C09.correlation_def_biased x x p d hd 1, Nat.max_self]
    rfl
  rw [LpcL.lpc_eq_scaleLev hω hstar h2 hn0 x hreal hm1 hm hnfft p hp _ hr,
    (aryule_r0_real x p h2).2.2]
  exact ⟨rfl, rfl, rfl⟩

/-- non-vacuity of the hypotheses: `K = ℂ`, `nfft = 4`, `ω = -i` (a primitive 4th root of unity on
the unit circle), the real signal `x = [1, 2]` (`m = 2`, `2m-1 = 3 ≤ 4`), order `p = 1` -/
example : IsPrimitiveRoot (-Complex.I) 4 ∧ star (-Complex.I) = (-Complex.I)⁻¹
    ∧ (2 : ℂ) ≠ 0 ∧ ((4 : ℕ) : ℂ) ≠ 0
    ∧ (∀ n, star (nth ([1, 2] : List ℂ) n) = nth ([1, 2] : List ℂ) n)
    ∧ (((([1, 2] : List ℂ).length - 1 : ℕ)) : ℂ) ≠ 0 ∧ ((([1, 2] : List ℂ).length : ℕ) : ℂ) ≠ 0
    ∧ 2 * ([1, 2] : List ℂ).length - 1 ≤ 4 ∧ 1 ≤ ([1, 2] : List ℂ).length - 1 := by
  refine ⟨?_, ?_, by norm_num, by norm_num, ?_, by norm_num, by norm_num, by norm_num, by norm_num⟩
  · refine IsPrimitiveRoot.mk_of_lt _ (by norm_num) ?_ ?_
    · rw [neg_pow, Complex.I_pow_four]; norm_num
    · intro l hl0 hl4
      interval_cases l
      · norm_num [Complex.ext_iff]
      · norm_num [neg_pow, Complex.ext_iff]
      · rw [neg_pow, Complex.I_pow_three]; norm_num [Complex.ext_iff]
  · rw [star_neg, Complex.star_def, Complex.conj_I, neg_neg, inv_neg, Complex.inv_I, neg_neg]
  · intro n
    rcases n with _ | _ | n <;> simp [nth]

end Lpc

end SpecVerif.C12
