import SpecVerif.Proofs.Lemmas.Object
import SpecVerif.Proofs.Lemmas.ObjectF
/-
  C07 — the `Spectrum` object is a correct cache: after any sequence of attribute assignments interleaved
  with explicit computations and reads, reading `psd` returns the estimate of the *final* attribute values
  (what a freshly constructed object with those values returns), `df = sampling / NFFT`, `frequencies()` has
  the length of `psd`, and re-assigning an unchanged value does not alter the result.

  Model reading (`Model/Object.lean`): `cache = some (snap, sd)` means "the stored PSD is the estimate
  computed from attribute snapshot `snap`, stored in representation `sd`"; the estimate is an uninterpreted
  function of the snapshot, so "the PSD read is the one a fresh object with the final attributes returns"
  is `cache = some (s.a, s.sides)` after the read.  `df = rangeSamp / rangeN`.

  `ObjInv`, `SideOk`, `argSide` (the side an argument of `sides = ...` denotes) and `sideArg` (the argument
  denoting a side) are defined in `Lemmas/Object.lean`.  Property theorems only.
-/
namespace SpecVerif.C07
open SpecVerif SpecVerif.ObjL

/-! ## 1. the invariant -/

/-- a freshly constructed object satisfies the invariant -/
theorem init_inv (a : Attrs) (par : Bool) : ObjInv (objInit a par) := ObjL.init_inv a par

/-- **every** operation preserves the invariant (including the raising branch of `setSides`) -/
theorem step_inv (s : ObjState) (op : ObjOp) (h : ObjInv s) : ObjInv (objStep s op).1 :=
  ObjL.step_inv s op h

/-- the invariant holds after **every** list of operations -/
theorem run_inv (s : ObjState) (ops : List ObjOp) (h : ObjInv s) : ObjInv (objRun s ops) :=
  ObjL.run_inv s ops h

/-- so it holds in every state reachable from a constructor -/
theorem reachable_inv (a : Attrs) (par : Bool) (ops : List ObjOp) : ObjInv (objRun (objInit a par) ops) :=
  ObjL.run_inv _ ops (ObjL.init_inv a par)

/-! ## 2. a read returns the estimate of the current attributes -/

/-- In a reachable state a read of `psd` leaves the object holding the estimate of its (unchanged)
attributes in its `sides` representation, clears `modified`, and does not raise. -/
theorem read_fresh (s : ObjState) (h : ObjInv s) :
    (objStep s .read).1.cache = some ((objStep s .read).1.a, (objStep s .read).1.sides) ∧
    (objStep s .read).1.a = s.a ∧ (objStep s .read).1.modified = false ∧ (objStep s .read).2 = false := by
  rw [read_state s h]
  exact ⟨rfl, rfl, rfl, rfl⟩

/-- After **any** list of operations on a fresh object, reading `psd` gives the estimate of the FINAL
attribute values, stored in the object's final `sides`; the read does not raise. -/
theorem read_after_run_fresh (a : Attrs) (par : Bool) (ops : List ObjOp) :
    let st := objRun (objInit a par) ops
    (objStep st .read).1.cache = some (st.a, (objStep st .read).1.sides) ∧
    (objStep st .read).1.a = st.a ∧ (objStep st .read).2 = false := by
  intro st
  have h := read_fresh st (reachable_inv a par ops)
  refine ⟨?_, h.2.1, h.2.2.2⟩
  rw [h.1, h.2.1]

/-- A freshly constructed object with attributes `a'`, read once and then assigned `sides := sd`
(admissible: not complex-and-one-sided), holds exactly `(a', sd)`; the assignment does not raise. -/
theorem fresh_read_setSides (a' : Attrs) (par : Bool) (sd : Side) (hadm : ¬(a'.cplx = true ∧ sd = .one)) :
    (objRun (objInit a' par) [.read, .setSides (sideArg sd)]).cache = some (a', sd) ∧
    (objRun (objInit a' par) [.read, .setSides (sideArg sd)]).a = a' ∧
    (objRun (objInit a' par) [.read, .setSides (sideArg sd)]).sides = sd ∧
    (objStep (objStep (objInit a' par) .read).1 (.setSides (sideArg sd))).2 = false := by
  simp only [objRun, List.foldl_cons, List.foldl_nil]
  rw [objStep_setSides, argSide_sideArg]
  simp only [objStep, objInit, recompute, Option.isNone_none, Bool.true_or, if_true, Bool.false_eq_true,
    if_false]
  split <;> grind

/-- **same result as a fresh object** (admissible case stated explicitly): reading after any reachable
state `s` exposes the same (snapshot, representation) pair as a fresh object constructed with the final
attributes, read once, and assigned the final side. -/
theorem fresh_eq (s : ObjState) (h : ObjInv s) (par' : Bool)
    (hadm : ¬((objStep s .read).1.a.cplx = true ∧ (objStep s .read).1.sides = .one)) :
    (objRun (objInit (objStep s .read).1.a par') [.read, .setSides (sideArg (objStep s .read).1.sides)]).cache
      = (objStep s .read).1.cache := by
  rw [(fresh_read_setSides _ par' _ hadm).1, (read_fresh s h).1]

/-- the admissibility hypothesis of `fresh_eq` always holds for states reachable from a constructor:
an up-to-date stored PSD of complex data is never one-sided -/
theorem read_side_admissible (a : Attrs) (par : Bool) (ops : List ObjOp) :
    let st := (objStep (objRun (objInit a par) ops) .read).1
    ¬(st.a.cplx = true ∧ st.sides = .one) := by
  intro st
  have hok : SideOk st := step_sideOk _ .read (run_sideOk _ ops (init_sideOk a par))
  have hr := read_fresh _ (reachable_inv a par ops)
  exact hok hr.2.2.1 (by rw [hr.1]; rfl)

/-- **C07, main statement**: for every list of operations, the object read at the end and a fresh object
built from the final attributes (read, then given the final side) hold the same (snapshot, representation)
— no admissibility hypothesis is needed for reachable states. -/
theorem fresh_eq_reachable (a : Attrs) (par par' : Bool) (ops : List ObjOp) :
    let st := (objStep (objRun (objInit a par) ops) .read).1
    (objRun (objInit st.a par') [.read, .setSides (sideArg st.sides)]).cache = st.cache ∧
    (objRun (objInit st.a par') [.read, .setSides (sideArg st.sides)]).a = st.a ∧
    (objRun (objInit st.a par') [.read, .setSides (sideArg st.sides)]).sides = st.sides ∧
    st.a = (objRun (objInit a par) ops).a := by
  intro st
  have hadm := read_side_admissible a par ops
  have hf := fresh_read_setSides st.a par' st.sides hadm
  have hr := read_fresh _ (reachable_inv a par ops)
  exact ⟨by rw [hf.1]; exact hr.1.symm, hf.2.1, hf.2.2.1, hr.2.1⟩

/-! ## 3. `df = sampling / NFFT` -/

/-- In every reachable state the `Range` axis is built from the current `sampling` and `NFFT`
(`df = rangeSamp / rangeN = sampling / NFFT`). -/
theorem df_eq (a : Attrs) (par : Bool) (ops : List ObjOp) :
    (objRun (objInit a par) ops).rangeSamp = (objRun (objInit a par) ops).a.samp ∧
    (objRun (objInit a par) ops).rangeN = (objRun (objInit a par) ops).a.nfft :=
  have h := reachable_inv a par ops
  ⟨h.2.1, h.1⟩

/-! ## 4. `frequencies()` has the length of `psd` -/

/-- After a read in a reachable state a PSD is stored, and `frequencies()` has exactly as many entries as
a PSD stored in the cache's representation for `NFFT` points. -/
theorem len_freqs_eq_len_psd (s : ObjState) (h : ObjInv s) :
    (∃ snap sd, (objStep s .read).1.cache = some (snap, sd)) ∧
    ∀ snap sd, (objStep s .read).1.cache = some (snap, sd) →
      freqLen (objStep s .read).1 = psdLen sd (objStep s .read).1.a.nfft := by
  have hr := read_fresh s h
  have hi := ObjL.step_inv s .read h
  refine ⟨⟨_, _, hr.1⟩, ?_⟩
  intro snap sd hc
  have := hi.2.2 hr.2.2.1 snap sd hc
  rw [freqLen, psdLen, hi.1, this.2]

/-- the same, at the end of any run from a constructor -/
theorem len_freqs_eq_len_psd_run (a : Attrs) (par : Bool) (ops : List ObjOp) (snap : Attrs) (sd : Side)
    (hc : (objRun (objInit a par) (ops ++ [.read])).cache = some (snap, sd)) :
    freqLen (objRun (objInit a par) (ops ++ [.read])) =
      psdLen sd (objRun (objInit a par) (ops ++ [.read])).a.nfft := by
  rw [objRun_append] at *
  exact (len_freqs_eq_len_psd _ (reachable_inv a par ops)).2 snap sd hc

/-- the common length, explicitly: `NFFT/2 + 1` (even) or `(NFFT+1)/2` (odd) one-sided, `NFFT` otherwise -/
theorem psdLen_value (sd : Side) (n : Nat) :
    psdLen sd n = match sd with
      | .one => if n % 2 = 0 then n / 2 + 1 else (n + 1) / 2
      | .two => n
      | .center => n := by
  cases sd <;> simp [psdLen, rangeBins]

/-! ## 6. the `sides` setter (the repaired defect) -/

/-- In a reachable state with a stored PSD, `sides = arg` first brings the estimate up to date
(`s1`); it raises iff the up-to-date side differs from the target, the data is complex and the target is
one-sided; otherwise it ends with `sides = tgt`, `modified = false` and the cache `(s.a, tgt)` — NEVER a
stale snapshot, even when `modified` was set before.  When it raises, the object is left in the
up-to-date state `s1`, whose cache is `(s.a, s1.sides)`. -/
theorem setSides_effect (s : ObjState) (h : ObjInv s) (hc : s.cache.isSome = true) (arg : SideArg) :
    let tgt := argSide arg s.a.cplx
    let s1 := if s.modified then recompute s else s
    let r := objStep s (.setSides arg)
    (r.2 = true ↔ (s1.sides ≠ tgt ∧ s.a.cplx = true ∧ tgt = .one)) ∧
    (r.2 = false → r.1.sides = tgt ∧ r.1.modified = false ∧ r.1.cache = some (s.a, tgt) ∧ r.1.a = s.a) ∧
    (r.2 = true → r.1 = s1 ∧ r.1.cache = some (s.a, s1.sides) ∧ r.1.modified = false) := by
  intro tgt s1 r
  simp only [r, s1, tgt]
  rw [objStep_setSides]
  rcases s with ⟨a, sides, cache, modified, rn, rs, par⟩
  generalize argSide arg a.cplx = tgt
  rcases cache with _ | ⟨snap, sd⟩
  · simp at hc
  · cases modified
    · simp only [ObjInv, Bool.false_eq_true, if_false] at *
      split <;> grind
    · simp only [ObjInv, recompute, if_true] at *
      split <;> grind

/-- with no PSD stored yet the setter just records the side and clears `modified`; it never raises -/
theorem setSides_no_cache (s : ObjState) (hc : s.cache = none) (arg : SideArg) :
    objStep s (.setSides arg) = ({ s with sides := argSide arg s.a.cplx, modified := false }, false) := by
  rw [objStep_setSides, hc]

/-! ## 5. re-assigning an unchanged value -/

/-- GUARDED setters: assigning the value the attribute already has leaves the whole state unchanged
(`lag` is guarded only for Fourier-type objects). -/
theorem reassign_noop (s : ObjState) :
    (objStep s (.setNfft s.a.nfft)).1 = s ∧
    (objStep s (.setSamp s.a.samp)).1 = s ∧
    (objStep s (.setDetrend s.a.detrend)).1 = s ∧
    (objStep s (.setScale s.a.scale)).1 = s ∧
    (objStep s (.setWindow s.a.window)).1 = s ∧
    (s.parametric = false → (objStep s (.setLag s.a.lag)).1 = s) := by
  refine ⟨?_, ?_, ?_, ?_, ?_, ?_⟩ <;> simp +contextual [objStep, applyNfft]

/-- `NFFT = None` / `'nextpow2'` when they resolve to the current value are no-ops as well -/
theorem reassign_noop_nfft_resolved (s : ObjState) :
    (s.a.nfft = s.a.N → (objStep s .setNfftNone).1 = s) ∧
    (s.a.nfft = nextPow2 s.a.N → (objStep s .setNfftPow2).1 = s) := by
  constructor <;> intro h <;> simp [objStep, applyNfft, h]

/-- UNGUARDED setters (`data` with the same identity/complexity/length, `ar_order`, `ma_order`, `lag` of a
parametric object): the attributes are unchanged but `modified` is set, so the next read recomputes: it
returns the estimate of the SAME snapshot `s.a`, with the representation reset to the default side. -/
theorem reassign_unguarded (s : ObjState) (op : ObjOp)
    (hop : op = .setData s.a.dataId s.a.cplx s.a.N ∨ op = .setArOrder s.a.arOrder ∨
           op = .setMaOrder s.a.maOrder ∨ (op = .setLag s.a.lag ∧ s.parametric = true)) :
    (objStep s op).1.a = s.a ∧ (objStep s op).2 = false ∧
    ((objStep (objStep s op).1 .read).1.cache).map Prod.fst = some s.a ∧
    (objStep (objStep s op).1 .read).1.cache = some (s.a, defaultSide s.a.cplx) ∧
    (objStep (objStep s op).1 .read).1.sides = defaultSide s.a.cplx := by
  have key : (objStep s op).1 = { s with modified := true } ∧ (objStep s op).2 = false := by
    rcases s with ⟨⟨d, c, N, nf, sa, de, sc, w, l, ar, ma⟩, sides, cache, modified, rn, rs, par⟩
    rcases hop with rfl | rfl | rfl | ⟨rfl, hp⟩
    · exact ⟨rfl, rfl⟩
    · exact ⟨rfl, rfl⟩
    · exact ⟨rfl, rfl⟩
    · simp only at hp
      subst hp
      exact ⟨rfl, rfl⟩
  rw [key.1, read_of_modified _ rfl]
  exact ⟨rfl, key.2, rfl, rfl, rfl⟩

/-- `sides` re-assigned (any state with the invariant, even `modified`, even if the setter raises): the
attributes are unchanged and the next read returns the estimate of the same snapshot `s.a` (the
representation may have been reset to the default side by the recomputation). -/
theorem reassign_sides_snapshot (s : ObjState) (h : ObjInv s) (arg : SideArg) :
    (objStep s (.setSides arg)).1.a = s.a ∧
    ((objStep (objStep s (.setSides arg)).1 .read).1.cache).map Prod.fst = some s.a := by
  have ha := setSides_attrs s arg
  have hr := read_fresh _ (ObjL.step_inv s (.setSides arg) h)
  refine ⟨ha, ?_⟩
  rw [hr.1, hr.2.1, ha]
  rfl

/-- `sides` re-assigned to the current side in a reachable state that is not `modified`: the state is
unchanged and nothing is raised (with or without a stored PSD). -/
theorem reassign_sides_noop (s : ObjState) (h : ObjInv s) (hm : s.modified = false) (arg : SideArg)
    (harg : argSide arg s.a.cplx = s.sides) :
    objStep s (.setSides arg) = (s, false) := by
  rw [objStep_setSides, harg]
  rcases s with ⟨a, sides, cache, modified, rn, rs, par⟩
  simp only at hm
  subst hm
  rcases cache with _ | ⟨snap, sd⟩
  · rfl
  · have := h.2.2 rfl snap sd rfl
    simp only at this
    simp [this.1, this.2]

/-! ## 7. the NFFT setter and `nextPow2` -/

/-- Assigning a different NFFT resets `sides` to the default side, marks the object modified and rebuilds
the `Range` axis; everything else (in particular the stale cache) is kept. -/
theorem nfft_resets_sides (s : ObjState) (n : Nat) (hne : s.a.nfft ≠ n) :
    (applyNfft s n).sides = defaultSide s.a.cplx ∧ (applyNfft s n).modified = true ∧
    (applyNfft s n).rangeN = n ∧ (applyNfft s n).a = { s.a with nfft := n } ∧
    (applyNfft s n).cache = s.cache ∧ (applyNfft s n).rangeSamp = s.rangeSamp := by
  simp [applyNfft, hne]

/-- `nextPow2 n` is a power of two, it is the least one `≥ n` (minimality holds for every `n`), and it is
`≥ n` whenever `n ≤ 2^64` (the fuel of the model). -/
theorem nextPow2_spec (n : Nat) :
    (∃ j, nextPow2 n = 2 ^ j ∧ ∀ i, n ≤ 2 ^ i → j ≤ i) ∧ (n ≤ 2 ^ 64 → n ≤ nextPow2 n) := by
  constructor
  · obtain ⟨j, hj, _, hmin⟩ := nextPow2_go_pow n 64 0
    refine ⟨j, hj, fun i hi => ?_⟩
    apply Nat.le_of_not_lt
    intro hlt
    exact absurd hi (Nat.not_le.mpr (hmin i (Nat.zero_le _) hlt))
  · intro h
    exact nextPow2_go_ge n 64 1 (by simpa using h)

/-! ## 8. estimators that can fail (`Model/ObjectF.lean`)

`ok a = false`: the estimator raises for the attribute snapshot `a`.  The clause of C07 at stake: a read after a FAILED
computation must not hand out the stored array of the previous attributes — it has to behave like a fresh object with the
same final attribute values, i.e. raise again. -/

/-- with an estimator that never fails the extended machine IS the machine of sections 1–7 -/
theorem objStepF_total (ok : Attrs → Bool) (hok : ∀ a, ok a = true) (s : ObjState) (op : ObjOp) :
    objStepF ok s op = objStep s op := by
  cases op <;> simp [objStepF, recomputeF, hok, objStep]
  all_goals (split <;> rfl)

/-- the extended invariant holds in every state reachable from a constructor, whatever fails -/
theorem reachableF_inv (ok : Attrs → Bool) (a : Attrs) (par : Bool) (ops : List ObjOp) :
    ObjInvF ok (objRunF ok (objInit a par) ops) :=
  runF_inv ok _ ops (initF_inv ok a par)

/-- In a reachable state a read of `psd` raises **iff** the estimator fails for the CURRENT attribute values —
never because of, and never in spite of, what is stored. -/
theorem readF_raises_iff (ok : Attrs → Bool) (s : ObjState) (h : ObjInvF ok s) :
    (objStepF ok s .read).2 = true ↔ ok s.a = false := by
  obtain ⟨hi, hc⟩ := h
  rcases s with ⟨a, sides, cache, modified, rn, rs, par⟩
  rcases cache with _ | ⟨snap, sd⟩
  · cases hk : ok a <;> simp [objStepF, recomputeF, hk]
  · cases modified
    · have := (hi.2.2 rfl snap sd rfl).1
      have := hc snap sd rfl
      simp_all [objStepF]
    · cases hk : ok a <;> simp [objStepF, recomputeF, hk]

/-- a read that raises changes nothing at all: the object is still marked `modified` (or still has no PSD) -/
theorem readF_fail_unchanged (ok : Attrs → Bool) (s : ObjState) (hr : (objStepF ok s .read).2 = true) :
    (objStepF ok s .read).1 = s := by
  simp only [objStepF, recomputeF] at *
  split at hr
  · split at hr
    · simp at hr
    · rename_i h1 h2; simp [h1, h2]
  · simp at hr

/-- a read that returns leaves the estimate of the CURRENT attributes in the object's `sides` -/
theorem readF_ok_fresh (ok : Attrs → Bool) (s : ObjState) (h : ObjInvF ok s) (hok : ok s.a = true) :
    (objStepF ok s .read).2 = false ∧
    (objStepF ok s .read).1.cache = some (s.a, (objStepF ok s .read).1.sides) ∧
    (objStepF ok s .read).1.a = s.a ∧ (objStepF ok s .read).1.modified = false := by
  have e : objStepF ok s .read = objStep s .read := by
    simp only [objStepF, recomputeF, hok, objStep, if_true]
    split <;> rfl
  rw [e]
  have hr := read_fresh s h.1
  exact ⟨hr.2.2.2, by rw [hr.1, hr.2.1], hr.2.1, hr.2.2.1⟩

/-- **a failed read is not forgotten**: after a read that raised, every further read (any number of them, nothing assigned in
between) raises as well — the stored array of the previous attribute values is never returned. -/
theorem readF_fail_again (ok : Attrs → Bool) (s : ObjState) (hr : (objStepF ok s .read).2 = true) (n : Nat) :
    objRunF ok s (List.replicate n .read) = s ∧
    (objStepF ok (objRunF ok s (List.replicate n .read)) .read).2 = true := by
  induction n with
  | zero => exact ⟨rfl, hr⟩
  | succ n ih =>
    have : objRunF ok s (List.replicate (n + 1) .read) = s := by
      rw [List.replicate_succ, objRunF, List.foldl_cons, readF_fail_unchanged ok s hr]
      exact ih.1
    exact ⟨this, by rw [this]; exact hr⟩

/-- an explicit computation raises iff the estimator fails for the current attributes, and then changes nothing -/
theorem callF_effect (ok : Attrs → Bool) (s : ObjState) :
    ((objStepF ok s .call).2 = true ↔ ok s.a = false) ∧
    ((objStepF ok s .call).2 = true → (objStepF ok s .call).1 = s) ∧
    ((objStepF ok s .call).2 = false → (objStepF ok s .call).1 = recompute s) := by
  cases hk : ok s.a <;> simp [objStepF, recomputeF, hk]

/-- `sides = …` on an object whose stored PSD is not current and whose estimator fails: it raises and assigns nothing
(neither the side nor the `modified` flag), so the stale array is still recognisably stale. -/
theorem setSidesF_fail_unchanged (ok : Attrs → Bool) (s : ObjState) (arg : SideArg)
    (hc : s.cache.isSome = true) (hm : s.modified = true) (hk : ok s.a = false) :
    objStepF ok s (.setSides arg) = (s, true) := by
  rcases s with ⟨a, sides, cache, modified, rn, rs, par⟩
  rcases cache with _ | ⟨snap, sd⟩
  · simp at hc
  · simp only at hm hk
    simp [objStepF, hm, hk]

/-- a fresh object raises on its first read iff the estimator fails for its attributes -/
theorem freshF_raises_iff (ok : Attrs → Bool) (a : Attrs) (par : Bool) :
    (objStepF ok (objInit a par) .read).2 = true ↔ ok a = false :=
  readF_raises_iff ok _ (initF_inv ok a par)

/-- **C07 with failing computations, main statement.**  After ANY list of operations (some of which may have raised),
reading `psd` behaves like a freshly constructed object with the same final attribute values: it raises iff the fresh
object raises, and when both return, both hold the estimate of those final attribute values. -/
theorem freshF_eq_reachable (ok : Attrs → Bool) (a : Attrs) (par par' : Bool) (ops : List ObjOp) :
    let st := objRunF ok (objInit a par) ops
    ((objStepF ok st .read).2 = (objStepF ok (objInit st.a par') .read).2) ∧
    ((objStepF ok st .read).2 = false →
       (objStepF ok st .read).1.cache = some (st.a, (objStepF ok st .read).1.sides) ∧
       (objStepF ok (objInit st.a par') .read).1.cache =
         some (st.a, (objStepF ok (objInit st.a par') .read).1.sides)) := by
  intro st
  have hinv := reachableF_inv ok a par ops
  have h1 := readF_raises_iff ok st hinv
  have h2 := freshF_raises_iff ok st.a par'
  constructor
  · cases hk : ok st.a
    · rw [h1.mpr hk, h2.mpr hk]
    · have e1 : (objStepF ok st .read).2 = false := by
        cases hb : (objStepF ok st .read).2
        · rfl
        · rw [h1.mp hb] at hk; cases hk
      have e2 : (objStepF ok (objInit st.a par') .read).2 = false := by
        cases hb : (objStepF ok (objInit st.a par') .read).2
        · rfl
        · rw [h2.mp hb] at hk; cases hk
      rw [e1, e2]
  · intro hret
    have hk : ok st.a = true := by
      cases hk : ok st.a
      · rw [h1.mpr hk] at hret; cases hret
      · rfl
    exact ⟨(readF_ok_fresh ok st hinv hk).2.1,
           (readF_ok_fresh ok (objInit st.a par') (initF_inv ok st.a par') hk).2.1⟩

/-- the history of the seeded change C07-m7: compute, enlarge NFFT, assign a record that is too short (here: the estimator
needs `N ≥ 8`), read (raises), read again: raises again, nothing is stored for the new attributes, the old PSD is still
marked stale -/
example :
    let ok : Attrs → Bool := fun a => decide (8 ≤ a.N)
    let a0 : Attrs := ⟨1, false, 64, 64, 1, 0, false, 0, 0, 4, 8⟩
    let st := objRunF ok (objInit a0 true) [.read, .setNfft 128, .setData 2 false 5, .read]
    (objStepF ok st .read).2 = true ∧ st.modified = true ∧ st.cache = some (a0, Side.one) ∧
      (objStepF ok st (.setSides .two)).2 = true ∧ (objStepF ok st (.setSides .two)).1.modified = true := by
  decide

/-! ## non-vacuity -/

/-- a concrete run exercising the repaired path: compute, change an attribute, then assign `sides`
without reading — the cache is the estimate of the NEW attributes in the requested representation -/
example :
    let a0 : Attrs := ⟨7, false, 100, 128, 2, 1, true, 3, 10, 4, 0⟩
    let st := objRun (objInit a0 false) [.call, .setSamp 5, .setNfftPow2, .setSides .center]
    st.cache = some ({ a0 with samp := 5 }, Side.center) ∧ st.modified = false ∧ st.rangeSamp = 5 ∧
      st.rangeN = 128 := by
  decide

/-- complex data: the one-sided request raises and leaves an up-to-date two-sided estimate -/
example :
    let a0 : Attrs := ⟨7, true, 100, 128, 2, 1, true, 3, 10, 4, 0⟩
    let st := objRun (objInit a0 true) [.read, .setArOrder 9]
    (objStep st (.setSides .one)).2 = true ∧
      (objStep st (.setSides .one)).1.cache = some ({ a0 with arOrder := 9 }, Side.two) := by
  decide

example : nextPow2 100 = 128 ∧ nextPow2 128 = 128 ∧ nextPow2 1 = 1 ∧ nextPow2 0 = 1 := by decide

end SpecVerif.C07
