import SpecVerif.Proofs.Lemmas.Mtm
import SpecVerif.Proofs.C08
import Mathlib.Data.Real.Star
import Mathlib.Analysis.RCLike.Basic
import Mathlib.Tactic.NormNum
/-
  C19 — `pmtm` returns, for each taper, the `NFFT`-point DFT of `taper·data`, the taper eigenvalues and
  weights that are all `1` ('unity'), `eigenvalue/(index+1)` ('eigen') or, for 'adapt', Thomson's adaptive
  weights `λ (S/(λS + σ²(1-λ)))²` at the spectrum the iteration stopped on; the `MultiTapering` class returns
  the mean over tapers of `weight·|eigenspectrum|²` (doubled and folded for real data), which is real and
  non-negative.

  Property theorems only (helpers: `Proofs/Lemmas/Mtm.lean`, namespace `SpecVerif.MtmL`).
  `K` is any field with an involution, `ω` an `NFFT`-th root of unity (numpy's `e^{-2πi/NFFT}`), `ReOrd K`
  (the real-part comparisons of the `while` test) stays abstract.  Where an order is needed `K = ℝ`, or an
  `RCLike` field (`ℝ`, `ℂ`) with the order `0 ≤ z ↔ 0 ≤ re z ∧ im z = 0`.

  The Slepian tapers and their eigenvalues are INPUTS of the model (`taper`, `lams`): the eigen-solver is a
  C routine.  "Supplying precomputed tapers gives the same result as letting `pmtm` compute them" is
  therefore true by construction in the model (both call paths are the same function of the same
  `taper`/`lams` arguments) and has no theorem here; it is a differential test on the Python side.

  Notation of the model: `SkA[t][f] = |Sk_t[f]|²` are the squared moduli of the eigenspectra (row `t` =
  taper), `lams[t]` the eigenvalues, `nwin = lams.length`; weights are a table `W`: `nwin × 1` for
  unity/eigen (`W[t][0]`), `nfft × nwin` for adapt (`W[f][t]`).
-/
namespace SpecVerif.C19
open Finset SpecVerif SpecVerif.MtmL

variable {K : Type} [Field K]

/-! ### 1. the eigenspectra -/

/-- **eigenspectrum clause**: for `N ≤ NFFT` the eigenspectrum of a taper has `NFFT` bins and bin `k` is
`Σ_{j<N} taper_j x_j ω^{jk}`, the `NFFT`-point DFT of `taper·x`. -/
theorem eigenspectrum_eq {ω : K} {nfft : ℕ} (hn : 0 < nfft) (hω : ω ^ nfft = 1) (x taper : List K)
    (hN : x.length ≤ nfft) :
    (eigenspectrum (twiddles ω nfft) x taper nfft).length = nfft ∧
    ∀ k, k < nfft →
      nth (eigenspectrum (twiddles ω nfft) x taper nfft) k
        = ∑ j ∈ range x.length, (nth taper j * nth x j) * ω ^ (j * k) :=
  ⟨eigenspectrum_length _ x taper nfft, fun _ hk => nth_eigenspectrum hn hω x taper hN hk⟩

/-- non-vacuity: `K = ℚ`, `ω = -1`, `NFFT = 2`, data `[3, 5]`, taper `[2, 7]`: bins `6 + 35`, `6 - 35`. -/
example : eigenspectrum (twiddles (-1 : ℚ) 2) [3, 5] [2, 7] 2 = [41, -29] := by
  decide +kernel

/-! ### 2. the 'unity' and 'eigen' weights, shapes -/

section Weights
variable [StarRing K] [ReOrd K]

/-- **unity**: one weight `1` per taper -/
theorem weights_unity (x lams : List K) (SkA : List (List K)) (nfft : ℕ) (tolc : K) :
    pmtmWeights .unity x lams SkA nfft tolc = vec lams.length (fun _ => [1]) :=
  pmtmWeights_unity x lams SkA nfft tolc

/-- **eigen**: the weight of taper `i` is `λ_i/(i+1)` -/
theorem weights_eigen (x lams : List K) (SkA : List (List K)) (nfft : ℕ) (tolc : K) :
    pmtmWeights .eigen x lams SkA nfft tolc
        = vec lams.length (fun i => [nth lams i / ((i : K) + 1)]) ∧
    ∀ i, i < lams.length →
      (pmtmWeights .eigen x lams SkA nfft tolc).getD i [] = [nth lams i / ((i : K) + 1)] := by
  refine ⟨pmtmWeights_eigen x lams SkA nfft tolc, fun i hi => ?_⟩
  rw [pmtmWeights_eigen, getD_vec_lt _ hi]

/-- unity/eigen weights are an `nwin × 1` table -/
theorem weights_shape_taper (m : MtMethod) (hm : m ≠ .adapt) (x lams : List K)
    (SkA : List (List K)) (nfft : ℕ) (tolc : K) :
    (pmtmWeights m x lams SkA nfft tolc).length = lams.length ∧
    ∀ i, i < lams.length → ((pmtmWeights m x lams SkA nfft tolc).getD i []).length = 1 := by
  cases m with
  | adapt => exact absurd rfl hm
  | unity =>
    rw [pmtmWeights_unity]
    exact ⟨vec_length _ _, fun i hi => by rw [getD_vec_lt _ hi]; rfl⟩
  | eigen =>
    rw [pmtmWeights_eigen]
    exact ⟨vec_length _ _, fun i hi => by rw [getD_vec_lt _ hi]; rfl⟩

/-- adapt weights are an `nfft × nwin` table (the loop keeps the shape of `wk`) -/
theorem weights_shape_adapt (x lams : List K) (SkA : List (List K)) (nfft : ℕ) (tolc : K) :
    (pmtmWeights .adapt x lams SkA nfft tolc).length = nfft ∧
    ∀ f, f < nfft → ((pmtmWeights .adapt x lams SkA nfft tolc).getD f []).length = lams.length := by
  rw [pmtmWeights_adapt]
  exact adaptLoop_shape SkA lams _ _ nfft lams.length 99 _ (wkShape_vec nfft lams.length _)

end Weights

/-! ### 3. the adaptive weights -/

/-- **one pass** of the loop started at `st`: the new weights are Thomson's formula
`λ_t (S/(λ_t S + σ²(1-λ_t)))²` at `S = st.S[f]`, the new estimate is the mean of the `|Sk_t[f]|²` weighted by
the new weights, the old estimate is kept in `S1`, the counter is incremented. -/
theorem adapt_step_formula (Sk : List (List K)) (lams : List K) (sig2 : K) (nfft nwin : ℕ)
    (st : AdaptState K) :
    (∀ f, f < nfft → ∀ t, t < nwin →
      nth ((adaptStep Sk lams sig2 nfft nwin st).wk.getD f []) t
        = nth lams t * (nth st.S f / (nth lams t * nth st.S f + sig2 * (1 - nth lams t))) ^ 2) ∧
    (∀ f, f < nfft →
      nth (adaptStep Sk lams sig2 nfft nwin st).S f
        = (∑ t ∈ range nwin,
              nth ((adaptStep Sk lams sig2 nfft nwin st).wk.getD f []) t * nth (Sk.getD t []) f)
            / ∑ t ∈ range nwin, nth ((adaptStep Sk lams sig2 nfft nwin st).wk.getD f []) t) ∧
    (adaptStep Sk lams sig2 nfft nwin st).S1 = st.S ∧
    (adaptStep Sk lams sig2 nfft nwin st).i = st.i + 1 := by
  refine ⟨fun f hf t ht => ?_, fun f hf => adaptStep_S_entry Sk lams sig2 nfft nwin st hf, rfl, rfl⟩
  rw [adaptStep_wk_entry Sk lams sig2 nfft nwin st hf ht, adaptWeight_eq]

section Loop
variable [ReOrd K]

/-- **the `while` loop**: `adaptLoop` with fuel `n` returns the `k`-th iterate of `adaptStep` where `k ≤ n`
is the first index at which the test `Σ_f|S[f]-S1[f]|/NFFT > tol` fails, or `k = n` when it never fails
(the bound of the code: `pmtm` runs one unconditional pass and then this loop with fuel 99, `i < 100`); the test
held at all earlier iterates. -/
theorem adapt_loop_iterate (Sk : List (List K)) (lams : List K) (sig2 tol : K) (nfft nwin fuel : ℕ)
    (st0 : AdaptState K) :
    ∃ k, k ≤ fuel ∧
      adaptLoop Sk lams sig2 tol nfft nwin fuel st0 = (adaptStep Sk lams sig2 nfft nwin)^[k] st0 ∧
      (∀ j, j < k →
        reGt ((∑ f ∈ range nfft,
            absRe (nth ((adaptStep Sk lams sig2 nfft nwin)^[j] st0).S f
              - nth ((adaptStep Sk lams sig2 nfft nwin)^[j] st0).S1 f)) / (nfft : K)) tol = true) ∧
      (k = fuel ∨
        reGt ((∑ f ∈ range nfft,
            absRe (nth ((adaptStep Sk lams sig2 nfft nwin)^[k] st0).S f
              - nth ((adaptStep Sk lams sig2 nfft nwin)^[k] st0).S1 f)) / (nfft : K)) tol = false) :=
  adaptLoop_iterate Sk lams sig2 tol nfft nwin fuel st0

/-- **invariant of the loop**: if the start state either has not run yet (`i = 0`) or has weights equal
to Thomson's formula at its `S1` and `S` equal to the mean of the `|Sk_t|²` with those weights, then so
has the returned state: the returned weights are the formula evaluated at the spectrum `S1` of the LAST
evaluation (the one the loop stopped on or ran out of fuel on), and the returned `S` is
`Σ_t wk[f][t]·SkA[t][f] / Σ_t wk[f][t]` with exactly those weights. -/
theorem weights_adapt_formula (Sk : List (List K)) (lams : List K) (sig2 tol : K)
    (nfft nwin fuel : ℕ) (st0 : AdaptState K)
    (h0 : st0.i = 0 ∨
      ((∀ f, f < nfft → ∀ t, t < nwin →
          nth (st0.wk.getD f []) t = adaptWeight (nth lams t) sig2 (nth st0.S1 f)) ∧
       (∀ f, f < nfft →
          nth st0.S f = (∑ t ∈ range nwin, nth (st0.wk.getD f []) t * nth (Sk.getD t []) f)
            / ∑ t ∈ range nwin, nth (st0.wk.getD f []) t))) :
    (adaptLoop Sk lams sig2 tol nfft nwin fuel st0).i = 0 ∨
      ((∀ f, f < nfft → ∀ t, t < nwin →
          nth ((adaptLoop Sk lams sig2 tol nfft nwin fuel st0).wk.getD f []) t
            = adaptWeight (nth lams t) sig2
                (nth (adaptLoop Sk lams sig2 tol nfft nwin fuel st0).S1 f)) ∧
       (∀ f, f < nfft →
          nth (adaptLoop Sk lams sig2 tol nfft nwin fuel st0).S f
            = (∑ t ∈ range nwin,
                  nth ((adaptLoop Sk lams sig2 tol nfft nwin fuel st0).wk.getD f []) t
                    * nth (Sk.getD t []) f)
              / ∑ t ∈ range nwin,
                  nth ((adaptLoop Sk lams sig2 tol nfft nwin fuel st0).wk.getD f []) t)) :=
  adaptLoop_inv Sk lams sig2 tol nfft nwin fuel st0 h0

/-- **the loop stops**: the counter advanced by the number `k ≤ fuel` of passes, and either the fuel is
exhausted (`k = fuel`; in `pmtm` fuel 99 after the unconditional first pass, the code's `i < 100` bound) or the stopping test fails at the returned state. -/
theorem weights_adapt_stop (Sk : List (List K)) (lams : List K) (sig2 tol : K) (nfft nwin fuel : ℕ)
    (st0 : AdaptState K) :
    (adaptLoop Sk lams sig2 tol nfft nwin fuel st0).i ≤ st0.i + fuel ∧
    st0.i ≤ (adaptLoop Sk lams sig2 tol nfft nwin fuel st0).i ∧
    ((adaptLoop Sk lams sig2 tol nfft nwin fuel st0).i = st0.i + fuel ∨
      reGt ((∑ f ∈ range nfft,
          absRe (nth (adaptLoop Sk lams sig2 tol nfft nwin fuel st0).S f
            - nth (adaptLoop Sk lams sig2 tol nfft nwin fuel st0).S1 f)) / (nfft : K)) tol = false) := by
  obtain ⟨k, hk, heq, _, hstop⟩ := adaptLoop_iterate Sk lams sig2 tol nfft nwin fuel st0
  rw [heq, iterate_adaptStep_i]
  refine ⟨by omega, by omega, ?_⟩
  rcases hstop with h | h
  · exact Or.inl (by rw [h])
  · exact Or.inr h

variable [StarRing K]

/-- **`pmtm(method='adapt')`** (the repaired loop `while (i == 0 or Σ|S-S1|/NFFT > tol) and i < 100`): with
`σ² = adaptSig2 x = Σ_j x_j·conj x_j / N` (by definition), `tol = tolc·σ²/NFFT` and the start state
`S = (SkA[0]+SkA[1])/2`, `S1 = 0`, `wk[f][t] = λ_t`, `i = 0`, the returned weights are `st.wk` for the state `st`
reached by ONE UNCONDITIONAL pass followed by the conditional loop (fuel 99), and
* AT LEAST ONE AND AT MOST 100 passes were made: `1 ≤ st.i ≤ 100`, and `st.i = 100` or the stopping test fails
  at `st`;
* ALWAYS (there is no "the loop never ran, the weights are the eigenvalues" case any more)
  `W[f][t] = λ_t (S1[f]/(λ_t S1[f] + σ²(1-λ_t)))²`, Thomson's formula at `S1`, the spectrum the last pass
  started from, and `st.S[f] = Σ_t W[f][t]·SkA[t][f] / Σ_t W[f][t]`;
* after exactly one pass `S1` is the start estimate `(SkA[0]+SkA[1])/2`. -/
theorem weights_adapt_pmtm (x lams : List K) (SkA : List (List K)) (nfft : ℕ) (tolc : K) :
    ∃ st : AdaptState K,
      st = adaptLoop SkA lams (adaptSig2 x) (tolc * adaptSig2 x / (nfft : K)) nfft lams.length 99
            (adaptStep SkA lams (adaptSig2 x) nfft lams.length (adaptInit lams SkA nfft)) ∧
      pmtmWeights .adapt x lams SkA nfft tolc = st.wk ∧
      1 ≤ st.i ∧ st.i ≤ 100 ∧
      (st.i = 100 ∨
        reGt ((∑ f ∈ range nfft, absRe (nth st.S f - nth st.S1 f)) / (nfft : K))
          (tolc * adaptSig2 x / (nfft : K)) = false) ∧
      ((∀ f, f < nfft → ∀ t, t < lams.length →
          nth (st.wk.getD f []) t
            = nth lams t
              * (nth st.S1 f / (nth lams t * nth st.S1 f + adaptSig2 x * (1 - nth lams t))) ^ 2) ∧
        (∀ f, f < nfft →
          nth st.S f = (∑ t ∈ range lams.length, nth (st.wk.getD f []) t * nth (SkA.getD t []) f)
            / ∑ t ∈ range lams.length, nth (st.wk.getD f []) t)) ∧
      (st.i = 1 → ∀ f, f < nfft →
        nth st.S1 f = (nth (SkA.getD 0 []) f + nth (SkA.getD 1 []) f) / 2) := by
  have hstop := weights_adapt_stop SkA lams (adaptSig2 x) (tolc * adaptSig2 x / (nfft : K)) nfft
    lams.length 99 (adaptStep SkA lams (adaptSig2 x) nfft lams.length (adaptInit lams SkA nfft))
  have hi1 : (adaptStep SkA lams (adaptSig2 x) nfft lams.length (adaptInit lams SkA nfft)).i = 1 := rfl
  rw [hi1] at hstop
  refine ⟨_, rfl, pmtmWeights_adapt x lams SkA nfft tolc, hstop.2.1, hstop.1, hstop.2.2, ?_, ?_⟩
  · have h := adaptLoop_invS SkA lams (adaptSig2 x) (tolc * adaptSig2 x / (nfft : K)) nfft
      lams.length 99 _ (adaptInvS_step SkA lams (adaptSig2 x) nfft lams.length (adaptInit lams SkA nfft))
    refine ⟨fun f hf t ht => ?_, h.2⟩
    rw [h.1 f hf t ht, adaptWeight_eq]
  · intro hi f hf
    obtain ⟨k, _, heq, _, _⟩ := adaptLoop_iterate SkA lams (adaptSig2 x)
      (tolc * adaptSig2 x / (nfft : K)) nfft lams.length 99
      (adaptStep SkA lams (adaptSig2 x) nfft lams.length (adaptInit lams SkA nfft))
    rw [heq, iterate_adaptStep_i, hi1] at hi
    have hk : k = 0 := by omega
    rw [heq, hk, Function.iterate_zero, id, adaptStep_S1]
    show nth (vec nfft (fun f => (nth (SkA.getD 0 []) f + nth (SkA.getD 1 []) f) / 2)) f = _
    rw [nth_vec, if_pos hf]

/-- **number of passes of `pmtm(method='adapt')`**: the returned weights are those of the `k`-th iterate of the
pass map from the start state for some `1 ≤ k ≤ 100`; the stopping test held after each of the passes
`1, …, k-1` (it is NOT consulted before the first pass), and either `k = 100` or it fails after pass `k`. -/
theorem weights_adapt_pmtm_passes (x lams : List K) (SkA : List (List K)) (nfft : ℕ) (tolc : K) :
    ∃ k, 1 ≤ k ∧ k ≤ 100 ∧
      pmtmWeights .adapt x lams SkA nfft tolc
        = ((adaptStep SkA lams (adaptSig2 x) nfft lams.length)^[k] (adaptInit lams SkA nfft)).wk ∧
      (∀ j, 1 ≤ j → j < k →
        reGt ((∑ f ∈ range nfft,
            absRe (nth ((adaptStep SkA lams (adaptSig2 x) nfft lams.length)^[j] (adaptInit lams SkA nfft)).S f
              - nth ((adaptStep SkA lams (adaptSig2 x) nfft lams.length)^[j] (adaptInit lams SkA nfft)).S1 f))
            / (nfft : K)) (tolc * adaptSig2 x / (nfft : K)) = true) ∧
      (k = 100 ∨
        reGt ((∑ f ∈ range nfft,
            absRe (nth ((adaptStep SkA lams (adaptSig2 x) nfft lams.length)^[k] (adaptInit lams SkA nfft)).S f
              - nth ((adaptStep SkA lams (adaptSig2 x) nfft lams.length)^[k] (adaptInit lams SkA nfft)).S1 f))
            / (nfft : K)) (tolc * adaptSig2 x / (nfft : K)) = false) := by
  obtain ⟨k, hk, heq, hall, hlast⟩ := adaptLoop_iterate SkA lams (adaptSig2 x)
    (tolc * adaptSig2 x / (nfft : K)) nfft lams.length 99
    (adaptStep SkA lams (adaptSig2 x) nfft lams.length (adaptInit lams SkA nfft))
  refine ⟨k + 1, Nat.succ_le_succ (Nat.zero_le _), Nat.succ_le_succ hk, ?_, ?_, ?_⟩
  · rw [pmtmWeights_adapt, heq, Function.iterate_succ_apply]
  · intro j hj1 hjk
    obtain ⟨j', rfl⟩ : ∃ j', j = j' + 1 := ⟨j - 1, by omega⟩
    have := hall j' (by omega)
    rw [← Function.iterate_succ_apply] at this
    exact this
  · rcases hlast with h | h
    · exact Or.inl (by rw [h])
    · right
      rw [← Function.iterate_succ_apply] at h
      exact h

end Loop

/-- non-vacuity and the repaired behaviour (`K = ℚ`, the real-part tests being `≤`, `>` on `ℚ`): data `[1, 1]`
(`σ² = 1`), eigenvalues `[1/2, 1/4]`, `SkA = [[1, 2], [3, 4]]`, `NFFT = 2`, start estimate `[2, 3]`.
With `tolc = 100` (`tol = 50`) the start estimate `Σ|S - 0|/2 = 5/2` is below the tolerance: the unrepaired loop
made NO pass and returned the eigenvalues `[[1/2, 1/4], [1/2, 1/4]]`; the repaired loop makes its first pass, e.g.
`W[0][0] = (1/2)·(2/(1 + 1/2))² = 8/9`, and stops after it (new estimate `[79/43, 50/17]`, change `≈ 0.11`).
With `tolc = 4` (`tol = 2`) the same single pass.  With `tolc = 1/5` (`tol = 1/10 < 0.11`) a second pass is made:
weights = Thomson's formula at `[79/43, 50/17]`, e.g. `W[0][0] = (1/2)·((79/43)/((79/43)/2 + 1/2))² = 6241/7442`. -/
example :
    letI : ReOrd ℚ := ⟨fun a => a ≤ 0, fun a b => a > b⟩
    pmtmWeights .adapt ([1, 1] : List ℚ) [1 / 2, 1 / 4] [[1, 2], [3, 4]] 2 100
        = [[8 / 9, 16 / 25], [9 / 8, 1]] ∧
    pmtmWeights .adapt ([1, 1] : List ℚ) [1 / 2, 1 / 4] [[1, 2], [3, 4]] 2 4
        = [[8 / 9, 16 / 25], [9 / 8, 1]] ∧
    pmtmWeights .adapt ([1, 1] : List ℚ) [1 / 2, 1 / 4] [[1, 2], [3, 4]] 2 (1 / 5)
        = [[6241 / 7442, 6241 / 10816], [5000 / 4489, 10000 / 10201]] := by
  decide +kernel

/-! ### 4. bounds on the adaptive weights (`K = ℝ`) -/

/-- **bounds**: for an eigenvalue `0 < λ ≤ 1`, a spectrum value `s ≥ 0` and data power `σ² ≥ 0`, whenever
the denominator `λ s + σ²(1-λ)` is positive, Thomson's weight lies in `[0, 1/λ]`
(`b = s/(λs+σ²(1-λ)) ≤ 1/λ`, so `λ b² ≤ 1/λ`).
Edge case, stated honestly: for `λ = 1` and `s = 0` the denominator is `0` whatever `σ²` is; numpy returns
`nan` there while Lean's `0/0 = 0` would give weight `0`; the hypothesis `hD` excludes it. -/
theorem weights_adapt_bounds {lam sig2 s : ℝ} (hl0 : 0 < lam) (hl1 : lam ≤ 1) (hs : 0 ≤ s)
    (hsig : 0 ≤ sig2) (hD : 0 < s * lam + sig2 * (1 - lam)) :
    0 ≤ adaptWeight lam sig2 s ∧ adaptWeight lam sig2 s ≤ 1 / lam :=
  adaptWeight_bounds hl0 hl1 hs hsig hD

/-- the denominator is positive when the spectrum value is positive, or when `λ < 1` and `σ² > 0` -/
theorem weights_adapt_den_pos {lam sig2 s : ℝ} (hl0 : 0 < lam) (hl1 : lam ≤ 1) (hs : 0 ≤ s)
    (hsig : 0 ≤ sig2) (h : 0 < s ∨ (lam < 1 ∧ 0 < sig2)) : 0 < s * lam + sig2 * (1 - lam) := by
  rcases h with h | ⟨h1, h2⟩
  · exact adaptDen_pos_of_spec hl0 hl1 h hsig
  · exact adaptDen_pos_of_lam hl0.le h1 hs h2

/-- non-vacuity: `λ = 1/2`, `σ² = 1`, `s = 1`: denominator `1`, weight `1/2 ∈ [0, 2]` -/
example : adaptWeight (1 / 2 : ℝ) 1 1 = 1 / 2 ∧ (0 : ℝ) < 1 * (1 / 2) + 1 * (1 - 1 / 2) := by
  unfold adaptWeight
  norm_num

/-- the excluded edge: at `λ = 1`, `s = 0` the denominator vanishes for every `σ²` -/
example (sig2 : ℝ) : (0 : ℝ) * 1 + sig2 * (1 - 1) = 0 := by norm_num

/-- **bounds for `pmtm(method='adapt')`** over `ℝ` (any real-part test `ReOrd ℝ`): with at least two
tapers, eigenvalues in `(0, 1)`, non-negative `|Sk_t[f]|²` and positive data power, every returned weight
`W[f][t]` lies in `[0, 1/λ_t]`, however many passes the loop made. -/
theorem weights_adapt_bounds_pmtm [ReOrd ℝ] (x lams : List ℝ) (SkA : List (List ℝ)) (nfft : ℕ)
    (tolc : ℝ) (h2 : 2 ≤ lams.length)
    (hl : ∀ t, t < lams.length → 0 < nth lams t ∧ nth lams t < 1)
    (hSk : ∀ t, t < lams.length → ∀ f, f < nfft → 0 ≤ nth (SkA.getD t []) f)
    (hsig : 0 < (∑ j ∈ range x.length, nth x j * star (nth x j)) / (x.length : ℝ)) :
    ∀ f, f < nfft → ∀ t, t < lams.length →
      0 ≤ nth ((pmtmWeights .adapt x lams SkA nfft tolc).getD f []) t ∧
      nth ((pmtmWeights .adapt x lams SkA nfft tolc).getD f []) t ≤ 1 / nth lams t := by
  rw [pmtmWeights_adapt]
  exact (adaptLoop_pos SkA lams _ nfft lams.length hl hsig hSk 99 _
    (adaptPos_step SkA lams nfft lams.length hl hsig hSk _
      (adaptPos_init lams SkA nfft (fun t ht => ⟨(hl t ht).1, (hl t ht).2.le⟩) h2 hSk))).2

/-! ### 5. the class mean -/

/-- `MultiTapering` computes `NFFT` values before folding -/
theorem class_mean_length (m : MtMethod) (SkA W : List (List K)) (nfft nwin : ℕ) :
    (mtMean m SkA W nfft nwin).length = nfft :=
  mtMean_length m SkA W nfft nwin

/-- **class mean, unity/eigen** (weights `nwin × 1`, broadcast over the frequencies): entry `f` is
`(Σ_{t<nwin} W[t][0]·SkA[t][f]) / nwin` -/
theorem class_mean_taper (m : MtMethod) (hm : m ≠ .adapt) (SkA W : List (List K)) {nfft : ℕ}
    (nwin : ℕ) {f : ℕ} (hf : f < nfft) :
    nth (mtMean m SkA W nfft nwin) f
      = (∑ t ∈ range nwin, nth (W.getD t []) 0 * nth (SkA.getD t []) f) / (nwin : K) :=
  nth_mtMean_taper m hm SkA W nwin hf

/-- **class mean, adapt** (weights `nfft × nwin`, transposed in the code): entry `f` is
`(Σ_{t<nwin} W[f][t]·SkA[t][f]) / nwin` -/
theorem class_mean_adapt (SkA W : List (List K)) {nfft : ℕ} (nwin : ℕ) {f : ℕ} (hf : f < nfft) :
    nth (mtMean .adapt SkA W nfft nwin) f
      = (∑ t ∈ range nwin, nth (W.getD f []) t * nth (SkA.getD t []) f) / (nwin : K) :=
  nth_mtMean_adapt SkA W nwin hf

section MeanWeights
variable [StarRing K] [ReOrd K]

/-- with the 'unity' weights of `pmtm` the class value is the plain mean of the `|Sk_t[f]|²` -/
theorem class_mean_unity (x lams : List K) (SkA : List (List K)) {nfft : ℕ} (tolc : K) {f : ℕ}
    (hf : f < nfft) :
    nth (mtMean .unity SkA (pmtmWeights .unity x lams SkA nfft tolc) nfft lams.length) f
      = (∑ t ∈ range lams.length, nth (SkA.getD t []) f) / (lams.length : K) := by
  rw [nth_mtMean_taper .unity (by decide) _ _ _ hf, pmtmWeights_unity]
  congr 1
  apply Finset.sum_congr rfl
  intro t ht
  rw [getD_vec_lt _ (mem_range.mp ht)]
  simp [nth]

/-- with the 'eigen' weights of `pmtm` the class value is `(Σ_t λ_t/(t+1)·|Sk_t[f]|²)/nwin` -/
theorem class_mean_eigen (x lams : List K) (SkA : List (List K)) {nfft : ℕ} (tolc : K) {f : ℕ}
    (hf : f < nfft) :
    nth (mtMean .eigen SkA (pmtmWeights .eigen x lams SkA nfft tolc) nfft lams.length) f
      = (∑ t ∈ range lams.length, nth lams t / ((t : K) + 1) * nth (SkA.getD t []) f)
          / (lams.length : K) := by
  rw [nth_mtMean_taper .eigen (by decide) _ _ _ hf, pmtmWeights_eigen]
  congr 1
  apply Finset.sum_congr rfl
  intro t ht
  rw [getD_vec_lt _ (mem_range.mp ht)]
  simp [nth]

end MeanWeights

/-! ### 6. the estimate is real and non-negative -/

/-- **sign, real data** (`K = ℝ`): non-negative weights and non-negative `|Sk_t[f]|²` give a non-negative
class mean, for both weight layouts. -/
theorem psd_nonneg (m : MtMethod) (SkA W : List (List ℝ)) {nfft nwin : ℕ}
    (hW : ∀ f, f < nfft → ∀ t, t < nwin →
      0 ≤ (match m with
            | .adapt => nth (W.getD f []) t
            | _ => nth (W.getD t []) 0))
    (hS : ∀ t, t < nwin → ∀ f, f < nfft → 0 ≤ nth (SkA.getD t []) f) :
    ∀ f, f < nfft → 0 ≤ nth (mtMean m SkA W nfft nwin) f := by
  intro f hf
  cases m with
  | adapt => exact nth_mtMean_adapt_nonneg SkA W hf (fun t ht => hW f hf t ht) (fun t ht => hS t ht f hf)
  | unity =>
    exact nth_mtMean_taper_nonneg .unity (by decide) SkA W hf (fun t ht => hW f hf t ht)
      (fun t ht => hS t ht f hf)
  | eigen =>
    exact nth_mtMean_taper_nonneg .eigen (by decide) SkA W hf (fun t ht => hW f hf t ht)
      (fun t ht => hS t ht f hf)

/-- **sign of the class PSD** (`K = ℝ`): if the `NFFT` raw values are non-negative then so is every
returned value of `classPsd` (folded and doubled for real data, scaled by `2π/df` when `scale_by_freq`),
provided the scale factor `2π/df` is non-negative when it is used. -/
theorem class_psd_nonneg (raw : List ℝ) {nfft : ℕ} (hn : 0 < nfft) (hraw : raw.length = nfft)
    (h0 : ∀ f, f < nfft → 0 ≤ nth raw f) (isReal s : Bool) (twoPi fs : ℝ)
    (hc : s = true → 0 ≤ twoPi / (fs / (nfft : ℝ))) (k : ℕ)
    (hk : k < (classPsd raw isReal nfft s twoPi fs).length) :
    0 ≤ nth (classPsd raw isReal nfft s twoPi fs) k := by
  have hfalse : 0 ≤ nth (classPsd raw isReal nfft false twoPi fs) k := by
    rw [C08.classPsd_length] at hk
    rw [ArmaL.classPsd_false]
    cases isReal with
    | false =>
      simp only [Bool.false_eq_true, if_false] at hk ⊢
      exact h0 k (hraw ▸ hk)
    | true =>
      simp only [if_true] at hk ⊢
      obtain ⟨hk', he⟩ := C08.fold_real_entry raw hn hraw k hk
      rw [he]
      exact mul_nonneg zero_le_two (h0 k (hraw ▸ hk'))
  cases s with
  | false => exact hfalse
  | true =>
    rw [C08.scale_once_entry]
    exact mul_nonneg hfalse (hc rfl)

/-- the two together: the values `MultiTapering` returns are non-negative -/
theorem class_psd_mt_nonneg (m : MtMethod) (SkA W : List (List ℝ)) {nfft nwin : ℕ} (hn : 0 < nfft)
    (hW : ∀ f, f < nfft → ∀ t, t < nwin →
      0 ≤ (match m with
            | .adapt => nth (W.getD f []) t
            | _ => nth (W.getD t []) 0))
    (hS : ∀ t, t < nwin → ∀ f, f < nfft → 0 ≤ nth (SkA.getD t []) f)
    (isReal s : Bool) (twoPi fs : ℝ) (hc : s = true → 0 ≤ twoPi / (fs / (nfft : ℝ))) (k : ℕ)
    (hk : k < (classPsd (mtMean m SkA W nfft nwin) isReal nfft s twoPi fs).length) :
    0 ≤ nth (classPsd (mtMean m SkA W nfft nwin) isReal nfft s twoPi fs) k :=
  class_psd_nonneg _ hn (mtMean_length m SkA W nfft nwin) (psd_nonneg m SkA W hW hS) isReal s twoPi
    fs hc k hk

/-- with the weights `pmtm` itself returns: 'unity' needs nothing beyond `|Sk_t[f]|² ≥ 0` -/
theorem psd_nonneg_pmtm_unity [ReOrd ℝ] (x lams : List ℝ) (SkA : List (List ℝ)) {nfft : ℕ} (tolc : ℝ)
    (hS : ∀ t, t < lams.length → ∀ f, f < nfft → 0 ≤ nth (SkA.getD t []) f) :
    ∀ f, f < nfft →
      0 ≤ nth (mtMean .unity SkA (pmtmWeights .unity x lams SkA nfft tolc) nfft lams.length) f := by
  intro f hf
  rw [class_mean_unity x lams SkA tolc hf]
  exact div_nonneg (Finset.sum_nonneg (fun t ht => hS t (mem_range.mp ht) f hf)) (Nat.cast_nonneg _)

/-- 'eigen' needs non-negative eigenvalues -/
theorem psd_nonneg_pmtm_eigen [ReOrd ℝ] (x lams : List ℝ) (SkA : List (List ℝ)) {nfft : ℕ} (tolc : ℝ)
    (hl : ∀ t, t < lams.length → 0 ≤ nth lams t)
    (hS : ∀ t, t < lams.length → ∀ f, f < nfft → 0 ≤ nth (SkA.getD t []) f) :
    ∀ f, f < nfft →
      0 ≤ nth (mtMean .eigen SkA (pmtmWeights .eigen x lams SkA nfft tolc) nfft lams.length) f := by
  intro f hf
  rw [class_mean_eigen x lams SkA tolc hf]
  refine div_nonneg (Finset.sum_nonneg (fun t ht => ?_)) (Nat.cast_nonneg _)
  have ht' := mem_range.mp ht
  exact mul_nonneg (div_nonneg (hl t ht') (add_nonneg (Nat.cast_nonneg _) zero_le_one)) (hS t ht' f hf)

/-- 'adapt' under the hypotheses of `weights_adapt_bounds_pmtm` -/
theorem psd_nonneg_pmtm_adapt [ReOrd ℝ] (x lams : List ℝ) (SkA : List (List ℝ)) {nfft : ℕ} (tolc : ℝ)
    (h2 : 2 ≤ lams.length) (hl : ∀ t, t < lams.length → 0 < nth lams t ∧ nth lams t < 1)
    (hS : ∀ t, t < lams.length → ∀ f, f < nfft → 0 ≤ nth (SkA.getD t []) f)
    (hsig : 0 < (∑ j ∈ range x.length, nth x j * star (nth x j)) / (x.length : ℝ)) :
    ∀ f, f < nfft →
      0 ≤ nth (mtMean .adapt SkA (pmtmWeights .adapt x lams SkA nfft tolc) nfft lams.length) f :=
  psd_nonneg .adapt SkA _
    (fun f hf t ht => (weights_adapt_bounds_pmtm x lams SkA nfft tolc h2 hl hS hsig f hf t ht).1) hS

section Complex
open scoped ComplexOrder
variable {F : Type} [RCLike F]

/-- **sign, complex data** (`F = ℂ`, or any `RCLike` field): if the table `SkA` really holds squared
moduli `z·conj z` and the weights are real and non-negative (`0 ≤ re w`, `im w = 0`), every class mean is
real and non-negative. -/
theorem psd_nonneg_rclike (m : MtMethod) (SkA W : List (List F)) {nfft nwin : ℕ}
    (hW : ∀ f, f < nfft → ∀ t, t < nwin →
      (0 ≤ RCLike.re (match m with
            | .adapt => nth (W.getD f []) t
            | _ => nth (W.getD t []) 0) ∧
       RCLike.im (match m with
            | .adapt => nth (W.getD f []) t
            | _ => nth (W.getD t []) 0) = 0))
    (hS : ∀ t, t < nwin → ∀ f, f < nfft → ∃ z : F, nth (SkA.getD t []) f = z * star z) :
    ∀ f, f < nfft →
      0 ≤ RCLike.re (nth (mtMean m SkA W nfft nwin) f) ∧
        RCLike.im (nth (mtMean m SkA W nfft nwin) f) = 0 := by
  intro f hf
  rw [← RCLike.nonneg_iff]
  have hS' : ∀ t, t < nwin → 0 ≤ nth (SkA.getD t []) f := by
    intro t ht
    obtain ⟨z, hz⟩ := hS t ht f hf
    rw [hz]
    exact mul_star_self_nonneg z
  cases m with
  | adapt =>
    exact nth_mtMean_adapt_nonneg SkA W hf (fun t ht => RCLike.nonneg_iff.mpr (hW f hf t ht)) hS'
  | unity =>
    exact nth_mtMean_taper_nonneg .unity (by decide) SkA W hf
      (fun t ht => RCLike.nonneg_iff.mpr (hW f hf t ht)) hS'
  | eigen =>
    exact nth_mtMean_taper_nonneg .eigen (by decide) SkA W hf
      (fun t ht => RCLike.nonneg_iff.mpr (hW f hf t ht)) hS'

/-- **sign of the class PSD, complex data**: if the raw values are real and non-negative, so are the
returned ones when the scale factor `2π/df` (if used) is real and non-negative. -/
theorem class_psd_nonneg_rclike (raw : List F)
    (h0 : ∀ f, f < raw.length → 0 ≤ RCLike.re (nth raw f) ∧ RCLike.im (nth raw f) = 0)
    (isReal s : Bool) (nfft : ℕ) (twoPi fs : F)
    (hc : s = true → 0 ≤ RCLike.re (twoPi / (fs / (nfft : F))) ∧
      RCLike.im (twoPi / (fs / (nfft : F))) = 0) (k : ℕ)
    (_hk : k < (classPsd raw isReal nfft s twoPi fs).length) :
    0 ≤ RCLike.re (nth (classPsd raw isReal nfft s twoPi fs) k) ∧
      RCLike.im (nth (classPsd raw isReal nfft s twoPi fs) k) = 0 := by
  rw [← RCLike.nonneg_iff]
  refine nth_classPsd_nonneg raw (fun j => ?_) isReal nfft s twoPi fs
    (fun hs => RCLike.nonneg_iff.mpr (hc hs)) k
  by_cases hj : j < raw.length
  · exact RCLike.nonneg_iff.mpr (h0 j hj)
  · rw [nth_of_ge raw j (not_lt.mp hj)]

end Complex

/-! ### 7. amplitude scaling (belongs to property C03) -/

/-- **eigenspectra are homogeneous**: scaling the data by `c` scales every eigenspectrum by `c`
(any twiddle table) -/
theorem mt_scale (tw x taper : List K) (nfft : ℕ) (c : K) :
    eigenspectrum tw (x.map (fun v => c * v)) taper nfft
      = (eigenspectrum tw x taper nfft).map (fun v => c * v) :=
  eigenspectrum_smul tw x taper nfft c

/-- **adaptive weights are scale-free**: scaling the spectrum value and the data power by the same
`c ≠ 0` (what `x ↦ a·x` does with `c = |a|²`) leaves Thomson's weight unchanged -/
theorem mt_scale_weight (lam sig2 s c : K) (hc : c ≠ 0) :
    adaptWeight lam (c * sig2) (c * s) = adaptWeight lam sig2 s :=
  adaptWeight_scale lam sig2 s c hc

end SpecVerif.C19
