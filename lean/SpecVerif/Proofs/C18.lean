import SpecVerif.Proofs.Lemmas.Dpss
import SpecVerif.Proofs.Lemmas.SincKernel
import SpecVerif.Proofs.Lemmas.DpssTri
/-
  C18 — `dpss(N, NW, k)`: the Python glue around the C eigen-solver.

  The eigen-solver is a PARAMETER of the model (`raws`, `tapsum` are inputs of `dpssGlue`); its accuracy
  is not provable.  What is proved here is everything the Python glue adds:
    1. shapes;
    2. the sign convention (given the C routine's contract `tapsum[i] = Σ_n raw_i[n]`): even-index tapers have a
       non-negative sum, odd-index tapers a non-negative first SIGNIFICANT sample (the first one whose magnitude
       exceeds 1% of the largest; the very first samples of long wide-band tapers are below the solver's round-off);
    3. the flip and the `1/√N` scaling preserve / produce orthonormality and do not change the ratio;
    4. the recomputed ratio `Σ_d acvs_d · r_d` IS the quadratic form `tᵀ K t` of the sinc concentration
       kernel `K[n,m] = sin(2πW(n-m))/(π(n-m))` (sum by diagonals);
    5. hence it lies in `[0,1]` for a unit taper as soon as `0 ≤ K ≤ I` as quadratic forms (hypothesis);
    6. that hypothesis is PROVED for `0 ≤ W ≤ 1/2` (`sinc_kernel_bounds`: `vᵀKv` is the energy of `Σ v_n e^{2πifn}` inside
       `|f| ≤ W`, `vᵀv` its energy inside `|f| ≤ 1/2`), so the ratio lies in `[0,1]` unconditionally, and strictly inside
       `(0,1)` for `0 < W < 1/2` (a non-zero trigonometric polynomial does not vanish on an interval);
    7. the symmetric tridiagonal matrix `T` that the C routine `multitap` builds and hands to EISPACK
       (`Model/DpssTri.lean`: `diag[i] = -cos(2πW)((N-1)/2 - i)²`, `offdiag[i] = -i(N-i)/2`) COMMUTES with the sinc kernel
       `K`, is unreduced, hence has one-dimensional eigenspaces, hence every eigenvector of `T` is an eigenvector of `K`:
       the eigenvector contract of part 4 ("the raw column is an eigenvector of the kernel") is replaced by "the raw
       column is an eigenvector of the matrix the C code diagonalises", which an independent tridiagonal eigen-solver
       can check (driver command `dpsstri`).
  Property theorems only (helpers: `Proofs/Lemmas/Dpss.lean`, namespace `SpecVerif.DpssL`; `Proofs/Lemmas/DpssTri.lean`,
  namespace `SpecVerif.DpssTriL`).
  All theorems are about the model at `R := ℝ` (instance `instRealFnReal`).
-/
namespace SpecVerif.C18
open Finset SpecVerif SpecVerif.DpssL

/-! ### 1. shapes -/

/-- `dpss` returns as many tapers as raw columns, each of length `N`, and as many ratios -/
theorem dpss_shape (N : ℕ) (NW : ℝ) (raws : List (List ℝ)) (tapsum : List ℝ) :
    (dpssGlue N NW raws tapsum).1.length = raws.length ∧
    (∀ t ∈ (dpssGlue N NW raws tapsum).1, t.length = N) ∧
    (dpssGlue N NW raws tapsum).2.length = raws.length := by
  refine ⟨glue_tapers_length N NW raws tapsum, ?_, glue_eigvals_length N NW raws tapsum⟩
  intro t ht
  simp only [dpssGlue, List.mem_map, List.mem_range] at ht
  obtain ⟨i, _, rfl⟩ := ht
  exact dpssTaper_length N i _ _

/-- the `i`-th reported ratio is `dpssEigval` of the `i`-th returned taper, with `W = NW/N` -/
theorem ratio_of_taper (N : ℕ) (NW : ℝ) (raws : List (List ℝ)) (tapsum : List ℝ) {i : ℕ}
    (hi : i < raws.length) :
    (dpssGlue N NW raws tapsum).2.getD i 0
      = dpssEigval N (NW / (N : ℝ)) ((dpssGlue N NW raws tapsum).1.getD i []) :=
  glue_eigval_getD N NW raws tapsum hi

/-! ### 3. the flip preserves autocovariances, ratios, norms and orthogonality -/

/-- negating a taper leaves every autocovariance lag unchanged -/
theorem flip_preserves_acvs (t : List ℝ) (d : ℕ) : acvs (t.map (fun v => -v)) d = acvs t d :=
  acvs_map_neg t d

/-- negating a taper leaves the concentration ratio unchanged -/
theorem flip_preserves_eigval (N : ℕ) (W : ℝ) (t : List ℝ) :
    dpssEigval N W (t.map (fun v => -v)) = dpssEigval N W t :=
  dpssEigval_map_neg N W t

/-- inner products change sign under the flip (so orthogonality is preserved) -/
theorem flip_preserves_inner (N : ℕ) (t u : List ℝ) :
    ∑ n ∈ range N, (t.map (fun v => -v)).getD n 0 * u.getD n 0
      = -∑ n ∈ range N, t.getD n 0 * u.getD n 0 := by
  rw [← Finset.sum_neg_distrib]
  apply Finset.sum_congr rfl
  intro n _
  rw [getD_map_neg]; ring

/-- the squared norm is unchanged by the flip -/
theorem flip_preserves_normsq (N : ℕ) (t : List ℝ) :
    ∑ n ∈ range N, (t.map (fun v => -v)).getD n 0 * (t.map (fun v => -v)).getD n 0
      = ∑ n ∈ range N, t.getD n 0 * t.getD n 0 := by
  apply Finset.sum_congr rfl
  intro n _
  rw [getD_map_neg]; ring

/-- the ratio reported for an output taper does not depend on whether it was flipped: it is the ratio
of the scaled raw column `raw/√N` -/
theorem eigval_flip_invariant (N i : ℕ) (W : ℝ) (raw : List ℝ) (ts : ℝ) :
    dpssEigval N W (dpssTaper N i raw ts)
      = dpssEigval N W (vec N (fun n => raw.getD n 0 / Real.sqrt (N : ℝ))) := by
  rcases dpssTaper_eq_or N i raw ts with h | h
  · rw [h]; rfl
  · rw [h, dpssEigval_map_neg]; rfl

/-- contract `Σ_n raw[n]² = N` ⇒ the output taper has unit norm -/
theorem unit_norm_of_contract {N : ℕ} (hN : 0 < N) (i : ℕ) (raw : List ℝ) (ts : ℝ)
    (hraw : ∑ n ∈ range N, raw.getD n 0 * raw.getD n 0 = (N : ℝ)) :
    ∑ n ∈ range N, (dpssTaper N i raw ts).getD n 0 * (dpssTaper N i raw ts).getD n 0 = 1 := by
  rw [normsq_dpssTaper hN, hraw]
  exact div_self (by exact_mod_cast hN.ne')

example : ∑ n ∈ range 2, ([1, -1] : List ℝ).getD n 0 * ([1, -1] : List ℝ).getD n 0 = ((2 : ℕ) : ℝ) := by
  simp [Finset.sum_range_succ]; norm_num

/-- orthogonal raw columns ⇒ orthogonal output tapers (whatever the two flips) -/
theorem orthogonal_of_contract {N : ℕ} (hN : 0 < N) (i j : ℕ) (rawi rawj : List ℝ) (tsi tsj : ℝ)
    (horth : ∑ n ∈ range N, rawi.getD n 0 * rawj.getD n 0 = 0) :
    ∑ n ∈ range N, (dpssTaper N i rawi tsi).getD n 0 * (dpssTaper N j rawj tsj).getD n 0 = 0 := by
  obtain ⟨σ, _, h⟩ := inner_dpssTaper hN i j rawi rawj tsi tsj
  rw [h, horth, zero_div, mul_zero]

/-- `dpss` output has orthonormal columns whenever the C routine's columns are mutually orthogonal with
squared norm `N` (the routine's contract) -/
theorem orthonormal_of_contract {N : ℕ} (hN : 0 < N) (NW : ℝ) (raws : List (List ℝ)) (tapsum : List ℝ)
    (hcontract : ∀ i j, i < raws.length → j < raws.length →
      ∑ n ∈ range N, (raws.getD i []).getD n 0 * (raws.getD j []).getD n 0
        = if i = j then (N : ℝ) else 0)
    {i j : ℕ} (hi : i < raws.length) (hj : j < raws.length) :
    ∑ n ∈ range N, ((dpssGlue N NW raws tapsum).1.getD i []).getD n 0
        * ((dpssGlue N NW raws tapsum).1.getD j []).getD n 0
      = if i = j then 1 else 0 := by
  rw [glue_taper_getD N NW raws tapsum hi, glue_taper_getD N NW raws tapsum hj]
  by_cases hij : i = j
  · subst hij
    rw [if_pos rfl]
    apply unit_norm_of_contract hN
    rw [hcontract i i hi hi, if_pos rfl]
  · rw [if_neg hij]
    apply orthogonal_of_contract hN
    rw [hcontract i j hi hj, if_neg hij]

/-- the contract is satisfiable: `N = 2`, columns `(1,1)` and `(1,-1)` -/
example : ∀ i j, i < ([[1, 1], [1, -1]] : List (List ℝ)).length → j < ([[1, 1], [1, -1]] : List (List ℝ)).length →
    ∑ n ∈ range 2, (([[1, 1], [1, -1]] : List (List ℝ)).getD i []).getD n 0
        * (([[1, 1], [1, -1]] : List (List ℝ)).getD j []).getD n 0
      = if i = j then ((2 : ℕ) : ℝ) else 0 := by
  intro i j hi hj
  simp only [List.length_cons, List.length_nil] at hi hj
  have hi' : i = 0 ∨ i = 1 := by omega
  have hj' : j = 0 ∨ j = 1 := by omega
  rcases hi' with rfl | rfl <;> rcases hj' with rfl | rfl <;>
    simp [Finset.sum_range_succ] <;> norm_num

/-! ### 2. the sign convention -/

/-- even-index taper: if the reported sum is the raw column's sum, the output taper sums to
`|Σ raw| / √N` -/
theorem sign_convention_even_sum {N i : ℕ} (hi : i % 2 = 0) (raw : List ℝ) (ts : ℝ)
    (hts : ts = ∑ n ∈ range N, raw.getD n 0) :
    ∑ n ∈ range N, (dpssTaper N i raw ts).getD n 0
      = |∑ n ∈ range N, raw.getD n 0| / Real.sqrt (N : ℝ) := by
  rw [dpssTaper_even raw ts hi]
  split
  · next h =>
    rw [sum_map_neg, sum_scaled, ← hts, abs_of_neg h, neg_div]
  · next h =>
    rw [sum_scaled, ← hts, abs_of_nonneg (not_lt.mp h)]

/-- even-index taper: non-negative sum, as soon as the reported sum `ts` has the sign of the raw
column's sum (in particular when it equals it) -/
theorem sign_convention_even {N i : ℕ} (hi : i % 2 = 0) (raw : List ℝ) (ts : ℝ)
    (hneg : ts < 0 → ∑ n ∈ range N, raw.getD n 0 ≤ 0)
    (hpos : 0 ≤ ts → 0 ≤ ∑ n ∈ range N, raw.getD n 0) :
    0 ≤ ∑ n ∈ range N, (dpssTaper N i raw ts).getD n 0 := by
  rw [dpssTaper_even raw ts hi]
  split
  · next h =>
    rw [sum_map_neg, sum_scaled, ← neg_div]
    exact div_nonneg (neg_nonneg.mpr (hneg h)) (Real.sqrt_nonneg _)
  · next h =>
    rw [sum_scaled]
    exact div_nonneg (hpos (not_lt.mp h)) (Real.sqrt_nonneg _)

/-- odd-index taper: the first SIGNIFICANT sample of the output (`firstSignificant`: the first sample whose magnitude
exceeds 1% of the largest magnitude `absMax`; `0` if there is none) is the magnitude of the first significant sample of
the scaled raw column `raw/√N`, in particular non-negative: read above the noise floor, the taper starts with a
positive lobe -/
theorem sign_convention_odd {N i : ℕ} (hi : i % 2 = 1) (raw : List ℝ) (ts : ℝ) :
    firstSignificant (dpssTaper N i raw ts)
      = |firstSignificant (vec N (fun n => raw.getD n 0 / Real.sqrt (N : ℝ)))| ∧
    0 ≤ firstSignificant (dpssTaper N i raw ts) := by
  have hi' : i % 2 ≠ 0 := by omega
  have key := firstSignificant_dpssTaper_odd (N := N) raw ts hi'
  exact ⟨key, key ▸ abs_nonneg _⟩

/-- odd-index taper, what the previous statement means sample by sample: if the raw column is not identically zero
there is a position `k < N` holding the first significant sample of the output taper `t`; `t[k]` is POSITIVE and
exceeds `M/100`, where `M = absMax t` is the largest magnitude of `t` (an upper bound of all `|t[n]|`, attained at some
`m < N`); and every sample before `k` is negligible, `|t[j]| ≤ M/100` -/
theorem sign_convention_odd_leading_lobe {N i : ℕ} (hi : i % 2 = 1) (raw : List ℝ) (ts : ℝ)
    (hraw : ∃ n, n < N ∧ raw.getD n 0 ≠ 0) :
    ∃ k, k < N ∧
      (dpssTaper N i raw ts).getD k 0 = firstSignificant (dpssTaper N i raw ts) ∧
      0 < (dpssTaper N i raw ts).getD k 0 ∧
      absMax (dpssTaper N i raw ts) / 100 < (dpssTaper N i raw ts).getD k 0 ∧
      (∀ j, j < k → |(dpssTaper N i raw ts).getD j 0| ≤ absMax (dpssTaper N i raw ts) / 100) ∧
      (∀ n, |(dpssTaper N i raw ts).getD n 0| ≤ absMax (dpssTaper N i raw ts)) ∧
      ∃ m, m < N ∧ |(dpssTaper N i raw ts).getD m 0| = absMax (dpssTaper N i raw ts) := by
  have hi' : i % 2 ≠ 0 := by omega
  have hlen := dpssTaper_length N i raw ts
  have hfs := firstSignificant_dpssTaper_odd (N := N) raw ts hi'
  have hsc : firstSignificant (scaled N raw) ≠ 0 :=
    (firstSignificant_ne_zero_iff _).mpr (scaled_exists_ne_zero raw hraw)
  generalize dpssTaper N i raw ts = t at hlen hfs ⊢
  have hne : firstSignificant t ≠ 0 := by rw [hfs]; exact abs_ne_zero.mpr hsc
  have hnn : 0 ≤ firstSignificant t := by rw [hfs]; exact abs_nonneg _
  have hM := absMax_nonneg t
  obtain ⟨k, hk, hkb, hgt, hbefore⟩ := firstSignificant_spec hne
  rw [abs_of_nonneg hnn] at hgt
  refine ⟨k, hlen ▸ hk, hkb, ?_, ?_, hbefore, abs_getD_le_absMax t, ?_⟩
  · rw [hkb]; exact lt_of_le_of_ne hnn (Ne.symm hne)
  · rw [hkb]; exact hgt
  · rcases absMax_attained t with h0 | ⟨w, hw, hwe⟩
    · exfalso
      have := abs_le_absMax (firstSignificant_mem hne)
      rw [abs_of_nonneg hnn] at this
      rw [h0] at this hgt
      linarith
    · obtain ⟨m, hm, hmw⟩ := exists_getD_of_mem hw
      exact ⟨m, hlen ▸ hm, by rw [hmw, hwe]⟩

/-- the hypothesis is satisfiable, and the new rule differs from "sign of the very first sample": in
`[10⁻⁹, -1, 1, 0]` the first sample is positive but negligible, the first significant one is `-1` … -/
example : absMax ([1 / 1000000000, -1, 1, 0] : List ℝ) = 1 ∧
    firstSignificant ([1 / 1000000000, -1, 1, 0] : List ℝ) = -1 ∧
    0 < ([1 / 1000000000, -1, 1, 0] : List ℝ).getD 0 0 := by
  have hM : absMax ([1 / 1000000000, -1, 1, 0] : List ℝ) = 1 := by
    simp [absMax, RealFn.lt, RealFn.abs]
    norm_num
  refine ⟨hM, ?_, by norm_num⟩
  rw [firstSignificant_eq, hM]
  norm_num [List.find?_cons]

/-- … so the odd-index taper built from the raw column `[2·10⁻⁹, -2, 2, 0]` (`N = 4`, `√N = 2`) IS flipped, to
`[-10⁻⁹, 1, -1, 0]`, whereas its first sample is positive -/
example : dpssTaper 4 1 ([2 / 1000000000, -2, 2, 0] : List ℝ) 0 = [-(1 / 1000000000), 1, -1, 0] := by
  have h4 : Real.sqrt ((4 : ℕ) : ℝ) = 2 := by
    rw [show ((4 : ℕ) : ℝ) = 2 ^ 2 by norm_num]; exact Real.sqrt_sq (by norm_num)
  have hsc : scaled 4 ([2 / 1000000000, -2, 2, 0] : List ℝ) = [1 / 1000000000, -1, 1, 0] := by
    simp only [scaled, h4, vec, List.range_succ, List.range_zero]
    norm_num
  have hM : absMax ([1 / 1000000000, -1, 1, 0] : List ℝ) = 1 := by
    simp [absMax, RealFn.lt, RealFn.abs]
    norm_num
  have hfs : firstSignificant ([1 / 1000000000, -1, 1, 0] : List ℝ) = -1 := by
    rw [firstSignificant_eq, hM]
    norm_num [List.find?_cons]
  rw [dpssTaper_odd _ _ (by norm_num), hsc, hfs]
  norm_num

/-- the sign convention on the output of `dpss`: given the C routine's contract
`tapsum[i] = Σ_n raw_i[n]`, even-index tapers have a non-negative sum and odd-index tapers a
non-negative first significant sample (the first sample above 1% of the largest magnitude; by
`sign_convention_odd_leading_lobe` it is positive and preceded only by negligible samples when the column is not zero) -/
theorem sign_convention {N : ℕ} (NW : ℝ) (raws : List (List ℝ)) (tapsum : List ℝ) {i : ℕ}
    (hi : i < raws.length)
    (hts : tapsum.getD i 0 = ∑ n ∈ range N, (raws.getD i []).getD n 0) :
    (i % 2 = 0 → 0 ≤ ∑ n ∈ range N, ((dpssGlue N NW raws tapsum).1.getD i []).getD n 0) ∧
    (i % 2 = 1 → 0 ≤ firstSignificant ((dpssGlue N NW raws tapsum).1.getD i [])) := by
  rw [glue_taper_getD N NW raws tapsum hi]
  constructor
  · intro he
    rw [sign_convention_even_sum he _ _ hts]
    exact div_nonneg (abs_nonneg _) (Real.sqrt_nonneg _)
  · intro ho
    exact (sign_convention_odd ho _ _).2

/-! ### 4. the reported ratio is the Rayleigh quotient of the sinc concentration kernel -/

/-- the kernel `K[n,m] = sin(2πW(n-m))/(π(n-m))` (`2W` on the diagonal) is symmetric -/
theorem kernel_symmetric (W : ℝ) (n m : ℕ) : sincKernel W n m = sincKernel W m n :=
  sincKernel_symm W n m

/-- **the heart**: for every real list `t` of length `N`,
`Σ_d acvs_d(t) · r_d = Σ_n Σ_m t[n] · K[n,m] · t[m]` with
`K[n,m] = if n = m then 2W else sin(2πW(n-m)) / (π(n-m))` — the quadratic form of the sinc
concentration kernel, i.e. the energy of `t` inside `|f| ≤ W` in its time-domain form (any `W`,
including `W = 0`) -/
theorem eigval_is_rayleigh (N : ℕ) (W : ℝ) (t : List ℝ) (ht : t.length = N) :
    dpssEigval N W t
      = ∑ n ∈ range N, ∑ m ∈ range N,
          t.getD n 0 *
            (if n = m then 2 * W
             else Real.sin (2 * Real.pi * W * ((n : ℝ) - (m : ℝ))) / (Real.pi * ((n : ℝ) - (m : ℝ))))
            * t.getD m 0 :=
  eigval_eq_quadform N W t ht

/-- the `i`-th ratio returned by `dpss` is `tᵀ K t` for the `i`-th returned taper `t`, `W = NW/N` -/
theorem reported_ratio_is_rayleigh (N : ℕ) (NW : ℝ) (raws : List (List ℝ)) (tapsum : List ℝ) {i : ℕ}
    (hi : i < raws.length) :
    (dpssGlue N NW raws tapsum).2.getD i 0
      = ∑ n ∈ range N, ∑ m ∈ range N,
          ((dpssGlue N NW raws tapsum).1.getD i []).getD n 0 * sincKernel (NW / (N : ℝ)) n m
            * ((dpssGlue N NW raws tapsum).1.getD i []).getD m 0 := by
  rw [glue_eigval_getD N NW raws tapsum hi]
  apply eigval_eq_quadform
  rw [glue_taper_getD N NW raws tapsum hi]
  exact dpssTaper_length N i _ _

/-- if a unit taper `t` is an eigenvector of the sinc kernel, `K t = μ t`, the recomputed ratio is
exactly its eigenvalue `μ` -/
theorem eigval_of_eigenvector (N : ℕ) (W μ : ℝ) (t : List ℝ) (ht : t.length = N)
    (hev : ∀ n, n < N → ∑ m ∈ range N, sincKernel W n m * t.getD m 0 = μ * t.getD n 0)
    (hunit : ∑ n ∈ range N, t.getD n 0 * t.getD n 0 = 1) :
    dpssEigval N W t = μ := by
  rw [eigval_eq_quadform N W t ht]
  exact quadform_of_eigvec N W μ t hev hunit

/-- agreement with the eigen-solver: if the `i`-th raw column is an eigenvector of the sinc kernel
(`W = NW/N`) with eigenvalue `μ` and squared norm `N` (the C routine's contract), then the `i`-th
returned taper is again an eigenvector for `μ` and the `i`-th returned ratio equals `μ` -/
theorem reported_ratio_eq_eigenvalue_of_contract {N : ℕ} (hN : 0 < N) (NW μ : ℝ)
    (raws : List (List ℝ)) (tapsum : List ℝ) {i : ℕ} (hi : i < raws.length)
    (hev : ∀ n, n < N → ∑ m ∈ range N, sincKernel (NW / (N : ℝ)) n m * (raws.getD i []).getD m 0
      = μ * (raws.getD i []).getD n 0)
    (hnorm : ∑ n ∈ range N, (raws.getD i []).getD n 0 * (raws.getD i []).getD n 0 = (N : ℝ)) :
    (∀ n, n < N →
      ∑ m ∈ range N, sincKernel (NW / (N : ℝ)) n m * ((dpssGlue N NW raws tapsum).1.getD i []).getD m 0
        = μ * ((dpssGlue N NW raws tapsum).1.getD i []).getD n 0) ∧
    (dpssGlue N NW raws tapsum).2.getD i 0 = μ := by
  rw [glue_eigval_getD N NW raws tapsum hi, glue_taper_getD N NW raws tapsum hi]
  have hT := eigvec_dpssTaper N i (NW / (N : ℝ)) μ _ (tapsum.getD i 0) hev
  exact ⟨hT, eigval_of_eigenvector N _ μ _ (dpssTaper_length N i _ _) hT
    (unit_norm_of_contract hN i _ _ hnorm)⟩

/-- the eigenvector contract is satisfiable: `N = 2`, `W = 1/4`, `K = [[1/2, 1/π], [1/π, 1/2]]`,
column `(1, 1)` with eigenvalue `1/2 + 1/π` and squared norm `2 = N` -/
example : ∀ n, n < 2 → ∑ m ∈ range 2, sincKernel (1 / 4) n m * ([1, 1] : List ℝ).getD m 0
      = (1 / 2 + 1 / Real.pi) * ([1, 1] : List ℝ).getD n 0 := by
  have hpi : Real.pi ≠ 0 := Real.pi_ne_zero
  have h1 : Real.sin (2 * Real.pi * (1 / 4) * ((0 : ℝ) - 1)) = -1 := by
    rw [show 2 * Real.pi * (1 / 4) * ((0 : ℝ) - 1) = -(Real.pi / 2) by ring, Real.sin_neg,
      Real.sin_pi_div_two]
  have h2 : Real.sin (2 * Real.pi * (1 / 4) * ((1 : ℝ) - 0)) = 1 := by
    rw [show 2 * Real.pi * (1 / 4) * ((1 : ℝ) - 0) = Real.pi / 2 by ring, Real.sin_pi_div_two]
  intro n hn
  have hn' : n = 0 ∨ n = 1 := by omega
  rcases hn' with rfl | rfl
  · simp only [Finset.sum_range_succ, Finset.sum_range_zero, sincKernel]
    simp only [Nat.cast_zero, Nat.cast_one, h1]
    simp; field_simp; ring
  · simp only [Finset.sum_range_succ, Finset.sum_range_zero, sincKernel]
    simp only [Nat.cast_zero, Nat.cast_one, h2]
    simp; field_simp; ring

/-! ### 5. the ratio lies in `[0,1]` given the kernel bounds -/

/-- if `0 ≤ vᵀKv ≤ vᵀv` for all `v` (here a hypothesis; proved for `0 ≤ W ≤ 1/2` in section 6,
`sinc_kernel_bounds`) then the ratio reported for a unit taper lies in `[0,1]` -/
theorem rayleigh_in_unit_interval_of_kernel_bounds (N : ℕ) (W : ℝ)
    (hK : ∀ v : ℕ → ℝ,
      0 ≤ ∑ n ∈ range N, ∑ m ∈ range N, v n * sincKernel W n m * v m ∧
      ∑ n ∈ range N, ∑ m ∈ range N, v n * sincKernel W n m * v m ≤ ∑ n ∈ range N, v n * v n)
    (t : List ℝ) (ht : t.length = N) (hunit : ∑ n ∈ range N, t.getD n 0 * t.getD n 0 = 1) :
    0 ≤ dpssEigval N W t ∧ dpssEigval N W t ≤ 1 := by
  rw [eigval_eq_quadform N W t ht]
  have h := hK (fun n => t.getD n 0)
  exact ⟨h.1, hunit ▸ h.2⟩

/-- the kernel-bound hypothesis is satisfiable: `N = 1`, `W = 1/4` (`K = [1/2]`) -/
example : ∀ v : ℕ → ℝ,
    0 ≤ ∑ n ∈ range 1, ∑ m ∈ range 1, v n * sincKernel (1 / 4) n m * v m ∧
    ∑ n ∈ range 1, ∑ m ∈ range 1, v n * sincKernel (1 / 4) n m * v m ≤ ∑ n ∈ range 1, v n * v n := by
  intro v
  simp only [Finset.sum_range_one, sincKernel_diag]
  constructor <;> nlinarith [mul_self_nonneg (v 0)]

/-- under the C routine's contract (`Σ raw² = N`) and the kernel bounds, every ratio returned by
`dpss` lies in `[0,1]` -/
theorem reported_ratio_in_unit_interval {N : ℕ} (hN : 0 < N) (NW : ℝ) (raws : List (List ℝ))
    (tapsum : List ℝ)
    (hK : ∀ v : ℕ → ℝ,
      0 ≤ ∑ n ∈ range N, ∑ m ∈ range N, v n * sincKernel (NW / (N : ℝ)) n m * v m ∧
      ∑ n ∈ range N, ∑ m ∈ range N, v n * sincKernel (NW / (N : ℝ)) n m * v m
        ≤ ∑ n ∈ range N, v n * v n)
    {i : ℕ} (hi : i < raws.length)
    (hnorm : ∑ n ∈ range N, (raws.getD i []).getD n 0 * (raws.getD i []).getD n 0 = (N : ℝ)) :
    0 ≤ (dpssGlue N NW raws tapsum).2.getD i 0 ∧ (dpssGlue N NW raws tapsum).2.getD i 0 ≤ 1 := by
  rw [glue_eigval_getD N NW raws tapsum hi, glue_taper_getD N NW raws tapsum hi]
  exact rayleigh_in_unit_interval_of_kernel_bounds N _ hK _ (dpssTaper_length N i _ _)
    (unit_norm_of_contract hN i _ _ hnorm)

/-! ### 6. the kernel bounds are a theorem: `vᵀKv` is the in-band energy of `Σ v_n e^{2πifn}` -/

open SpecVerif.SincL in
/-- the quadratic form of the sinc kernel is the energy of the trigonometric polynomial `Σ_n v_n e^{2πifn}` inside the
band `|f| ≤ W`, and `vᵀv` is its energy over the whole period `|f| ≤ 1/2` (Parseval); here
`|Σ_n v_n e^{2πifn}|² = (Σ_n v_n cos 2πfn)² + (Σ_n v_n sin 2πfn)²`; any real `W` -/
theorem kernel_quadform_is_inband_energy (N : ℕ) (W : ℝ) (v : ℕ → ℝ) :
    ∑ n ∈ range N, ∑ m ∈ range N, v n * sincKernel W n m * v m
      = ∫ f in (-W)..W, ((∑ n ∈ range N, v n * Real.cos (2 * Real.pi * f * (n : ℝ))) ^ 2
          + (∑ n ∈ range N, v n * Real.sin (2 * Real.pi * f * (n : ℝ))) ^ 2) ∧
    ∑ n ∈ range N, v n * v n
      = ∫ f in (-(1 / 2 : ℝ))..(1 / 2), ((∑ n ∈ range N, v n * Real.cos (2 * Real.pi * f * (n : ℝ))) ^ 2
          + (∑ n ∈ range N, v n * Real.sin (2 * Real.pi * f * (n : ℝ))) ^ 2) :=
  ⟨quadform_eq_integral N W v, normsq_eq_integral N v⟩

/-- **the kernel bounds**: for `0 ≤ W ≤ 1/2` and every real `v`, `0 ≤ vᵀKv ≤ vᵀv` — exactly the hypothesis `hK` of
`rayleigh_in_unit_interval_of_kernel_bounds` -/
theorem sinc_kernel_bounds (N : ℕ) (W : ℝ) (h0 : 0 ≤ W) (h1 : W ≤ 1 / 2) :
    ∀ v : ℕ → ℝ,
      0 ≤ ∑ n ∈ range N, ∑ m ∈ range N, v n * sincKernel W n m * v m ∧
      ∑ n ∈ range N, ∑ m ∈ range N, v n * sincKernel W n m * v m ≤ ∑ n ∈ range N, v n * v n :=
  fun v => ⟨SincL.quadform_nonneg N h0 v, SincL.quadform_le_normsq N h0 h1 v⟩

/-- instance inside the property's domain: `N = 3`, `NW = 1`, `W = 1/3` -/
example : ∀ v : ℕ → ℝ,
    0 ≤ ∑ n ∈ range 3, ∑ m ∈ range 3, v n * sincKernel (1 / 3) n m * v m ∧
    ∑ n ∈ range 3, ∑ m ∈ range 3, v n * sincKernel (1 / 3) n m * v m ≤ ∑ n ∈ range 3, v n * v n :=
  sinc_kernel_bounds 3 (1 / 3) (by norm_num) (by norm_num)

/-- strict kernel bounds: for `0 < W < 1/2` and `v` not identically zero on `[0,N)`, `0 < vᵀKv < vᵀv` (a non-zero
trigonometric polynomial has positive energy in every interval of positive length: in the band and outside it) -/
theorem sinc_kernel_bounds_strict (N : ℕ) (W : ℝ) (h0 : 0 < W) (h1 : W < 1 / 2)
    (v : ℕ → ℝ) (hv : ∃ n, n < N ∧ v n ≠ 0) :
    0 < ∑ n ∈ range N, ∑ m ∈ range N, v n * sincKernel W n m * v m ∧
    ∑ n ∈ range N, ∑ m ∈ range N, v n * sincKernel W n m * v m < ∑ n ∈ range N, v n * v n :=
  ⟨SincL.quadform_pos N h0 v hv, SincL.quadform_lt_normsq N h0.le h1 v hv⟩

/-- positivity alone needs only `0 < W` (any bandwidth, also `W > 1/2`) -/
theorem sinc_kernel_pos_def (N : ℕ) (W : ℝ) (h0 : 0 < W) (v : ℕ → ℝ) (hv : ∃ n, n < N ∧ v n ≠ 0) :
    0 < ∑ n ∈ range N, ∑ m ∈ range N, v n * sincKernel W n m * v m :=
  SincL.quadform_pos N h0 v hv

/-- the hypotheses of the strict bounds are satisfiable: `N = 2`, `W = 1/4`, `v = (1, -1, 0, …)` gives
`vᵀKv = 1 - 2/π ∈ (0, 2)` -/
example : 0 < ∑ n ∈ range 2, ∑ m ∈ range 2,
      (fun k : ℕ => if k = 0 then (1 : ℝ) else if k = 1 then -1 else 0) n * sincKernel (1 / 4) n m
        * (fun k : ℕ => if k = 0 then (1 : ℝ) else if k = 1 then -1 else 0) m :=
  (sinc_kernel_bounds_strict 2 (1 / 4) (by norm_num) (by norm_num) _ ⟨0, by norm_num, by norm_num⟩).1

/-- the ratio `dpss` recomputes for a unit taper lies in `[0,1]` for `0 ≤ W ≤ 1/2` — no hypothesis on the kernel -/
theorem rayleigh_in_unit_interval (N : ℕ) (W : ℝ) (h0 : 0 ≤ W) (h1 : W ≤ 1 / 2)
    (t : List ℝ) (ht : t.length = N) (hunit : ∑ n ∈ range N, t.getD n 0 * t.getD n 0 = 1) :
    0 ≤ dpssEigval N W t ∧ dpssEigval N W t ≤ 1 :=
  rayleigh_in_unit_interval_of_kernel_bounds N W (sinc_kernel_bounds N W h0 h1) t ht hunit

/-- … and strictly inside `(0,1)` for `0 < W < 1/2` -/
theorem rayleigh_in_open_unit_interval (N : ℕ) (W : ℝ) (h0 : 0 < W) (h1 : W < 1 / 2)
    (t : List ℝ) (ht : t.length = N) (hunit : ∑ n ∈ range N, t.getD n 0 * t.getD n 0 = 1) :
    0 < dpssEigval N W t ∧ dpssEigval N W t < 1 := by
  rw [eigval_eq_quadform N W t ht]
  have hv : ∃ n, n < N ∧ (fun n => t.getD n 0) n ≠ 0 := by
    by_contra hcon
    push Not at hcon
    have : ∑ n ∈ range N, t.getD n 0 * t.getD n 0 = 0 :=
      Finset.sum_eq_zero (fun n hn => by rw [hcon n (Finset.mem_range.mp hn)]; ring)
    rw [this] at hunit
    exact zero_ne_one hunit
  have h := sinc_kernel_bounds_strict N W h0 h1 (fun n => t.getD n 0) hv
  exact ⟨h.1, hunit ▸ h.2⟩

/-- `reported_ratio_in_unit_interval` with the kernel hypothesis discharged: under the C routine's contract
(`Σ raw² = N`) every ratio returned by `dpss(N, NW)` with `0 ≤ NW ≤ N/2` (half-bandwidth `W = NW/N ∈ [0, 1/2]`)
lies in `[0,1]` -/
theorem reported_ratio_in_unit_interval_unconditional {N : ℕ} (hN : 0 < N) (NW : ℝ) (raws : List (List ℝ))
    (tapsum : List ℝ) (hNW0 : 0 ≤ NW) (hNW1 : NW ≤ (N : ℝ) / 2)
    {i : ℕ} (hi : i < raws.length)
    (hnorm : ∑ n ∈ range N, (raws.getD i []).getD n 0 * (raws.getD i []).getD n 0 = (N : ℝ)) :
    0 ≤ (dpssGlue N NW raws tapsum).2.getD i 0 ∧ (dpssGlue N NW raws tapsum).2.getD i 0 ≤ 1 := by
  have hNR : (0 : ℝ) < (N : ℝ) := by exact_mod_cast hN
  have h0 : 0 ≤ NW / (N : ℝ) := div_nonneg hNW0 hNR.le
  have h1 : NW / (N : ℝ) ≤ 1 / 2 := by rw [div_le_iff₀ hNR]; linarith
  exact reported_ratio_in_unit_interval hN NW raws tapsum (sinc_kernel_bounds N _ h0 h1) hi hnorm

/-- the hypotheses are satisfiable, also at the end point `NW = N/2`: `N = 2`, `NW = 1`, raw column `(1, 1)` -/
example : 0 ≤ (dpssGlue 2 (1 : ℝ) [[1, 1]] [2]).2.getD 0 0 ∧ (dpssGlue 2 (1 : ℝ) [[1, 1]] [2]).2.getD 0 0 ≤ 1 :=
  reported_ratio_in_unit_interval_unconditional (N := 2) (i := 0) (by norm_num) 1 [[1, 1]] [2] (by norm_num) (by norm_num)
    (by simp) (by simp [Finset.sum_range_succ]; norm_num)

/-- the property on its whole domain and more (`1 ≤ NW < N/2` is inside `0 < NW < N/2`): under the C routine's
contract every ratio returned by `dpss(N, NW)` lies STRICTLY between 0 and 1, in particular in `(0, 1]` -/
theorem reported_ratio_in_open_unit_interval {N : ℕ} (hN : 0 < N) (NW : ℝ) (raws : List (List ℝ))
    (tapsum : List ℝ) (hNW0 : 0 < NW) (hNW1 : NW < (N : ℝ) / 2)
    {i : ℕ} (hi : i < raws.length)
    (hnorm : ∑ n ∈ range N, (raws.getD i []).getD n 0 * (raws.getD i []).getD n 0 = (N : ℝ)) :
    0 < (dpssGlue N NW raws tapsum).2.getD i 0 ∧ (dpssGlue N NW raws tapsum).2.getD i 0 < 1 := by
  have hNR : (0 : ℝ) < (N : ℝ) := by exact_mod_cast hN
  have h0 : 0 < NW / (N : ℝ) := div_pos hNW0 hNR
  have h1 : NW / (N : ℝ) < 1 / 2 := by rw [div_lt_iff₀ hNR]; linarith
  rw [glue_eigval_getD N NW raws tapsum hi, glue_taper_getD N NW raws tapsum hi]
  exact rayleigh_in_open_unit_interval N _ h0 h1 _ (dpssTaper_length N i _ _)
    (unit_norm_of_contract hN i _ _ hnorm)

/-- the concentration ratios lie in `(0, 1]` on the closed range `0 < NW ≤ N/2` (at `NW = N/2` the kernel is the
identity and every ratio is exactly 1) -/
theorem reported_ratio_in_Ioc {N : ℕ} (hN : 0 < N) (NW : ℝ) (raws : List (List ℝ))
    (tapsum : List ℝ) (hNW0 : 0 < NW) (hNW1 : NW ≤ (N : ℝ) / 2)
    {i : ℕ} (hi : i < raws.length)
    (hnorm : ∑ n ∈ range N, (raws.getD i []).getD n 0 * (raws.getD i []).getD n 0 = (N : ℝ)) :
    0 < (dpssGlue N NW raws tapsum).2.getD i 0 ∧ (dpssGlue N NW raws tapsum).2.getD i 0 ≤ 1 := by
  refine ⟨?_, (reported_ratio_in_unit_interval_unconditional hN NW raws tapsum hNW0.le hNW1 hi hnorm).2⟩
  have hNR : (0 : ℝ) < (N : ℝ) := by exact_mod_cast hN
  have hunit := unit_norm_of_contract hN i (raws.getD i []) (tapsum.getD i 0) hnorm
  rw [reported_ratio_is_rayleigh N NW raws tapsum hi, glue_taper_getD N NW raws tapsum hi]
  apply sinc_kernel_pos_def N _ (div_pos hNW0 hNR) (fun n => (dpssTaper N i (raws.getD i []) (tapsum.getD i 0)).getD n 0)
  by_contra hcon
  push Not at hcon
  have : ∑ n ∈ range N, (dpssTaper N i (raws.getD i []) (tapsum.getD i 0)).getD n 0
      * (dpssTaper N i (raws.getD i []) (tapsum.getD i 0)).getD n 0 = 0 :=
    Finset.sum_eq_zero (fun n hn => by rw [hcon n (Finset.mem_range.mp hn)]; ring)
  rw [this] at hunit
  exact zero_ne_one hunit

/-- the hypotheses are satisfiable inside the property's domain `1 ≤ NW < N/2`: `N = 3`, `NW = 1`, one raw column
`(1, 1, 1)` of squared norm `3 = N` -/
example : 0 < (dpssGlue 3 (1 : ℝ) [[1, 1, 1]] [3]).2.getD 0 0 ∧
    (dpssGlue 3 (1 : ℝ) [[1, 1, 1]] [3]).2.getD 0 0 < 1 :=
  reported_ratio_in_open_unit_interval (N := 3) (i := 0) (by norm_num) 1 [[1, 1, 1]] [3] (by norm_num) (by norm_num)
    (by simp) (by simp [Finset.sum_range_succ]; norm_num)

/-! ### 7. the tridiagonal matrix the C routine diagonalises commutes with the sinc kernel

`multitap` (src/cpp/mydpss.c) does not diagonalise the (ill-conditioned) kernel `K`; it builds the symmetric tridiagonal
matrix `T` with `diag[i] = -cos(2πW)·((N-1)/2 - i)²`, `offdiag[i] = -i(N-i)/2` (EISPACK convention: `offdiag[i]`, `1 ≤ i ≤ N-1`,
couples rows `i-1` and `i`), `W = npi/num_points`, and returns eigenvectors of `T` (`tridib` + `tinvit`).  Model:
`dpssDiag`, `dpssOff`, `dpssTriEntry`, `dpssTriMul` of `Model/DpssTri.lean`.

NOT proved (and not needed for what follows): that the ORDER of the eigenvalues of `T` matches the order of the eigenvalues
of `K` — i.e. that the `nwin` smallest eigenvalues of `T` (which the routine selects) belong to the `nwin` MOST concentrated
sequences.  That is Slepian's deeper result (Slepian 1978, via the oscillation / sign-change count of the eigenvectors);
here only "eigenvector of `T` ⇒ eigenvector of `K`, and the reported ratio is its `K`-eigenvalue" is established. -/

/-- the entries of the model's matrix at `ℝ`, spelled out: the C formulas -/
theorem tridiag_entries (N : ℕ) (W : ℝ) (i j : ℕ) :
    dpssTriEntry N W i j
      = if i = j then -Real.cos (2 * Real.pi * W) * (((N : ℝ) - 1) / 2 - (i : ℝ)) ^ 2
        else if i + 1 = j then -((j : ℝ) * ((N : ℝ) - (j : ℝ))) / 2
        else if j + 1 = i then -((i : ℝ) * ((N : ℝ) - (i : ℝ))) / 2
        else 0 := by
  unfold dpssTriEntry
  rw [DpssTriL.dpssDiag_real, DpssTriL.dpssOff_real, DpssTriL.dpssOff_real]

/-- the matrix is symmetric -/
theorem tridiag_symmetric (N : ℕ) (W : ℝ) (i j : ℕ) : dpssTriEntry N W i j = dpssTriEntry N W j i :=
  DpssTriL.dpssTriEntry_symm N W i j

/-- the model's three-term product `dpssTriMul` IS the matrix–vector product with these entries -/
theorem tridiag_mul_is_matrix_product {N : ℕ} (W : ℝ) (v : List ℝ) {i : ℕ} (hi : i < N) :
    (dpssTriMul N W v).getD i 0 = ∑ j ∈ range N, dpssTriEntry N W i j * v.getD j 0 :=
  DpssTriL.getD_dpssTriMul W v hi

/-- **`T K = K T`** (Slepian 1978), entry by entry, for every `N ≥ 1` and EVERY real `W`:
`Σ_j T[m,j]·K[j,n] = Σ_j K[m,j]·T[j,n]` for all `m, n < N`.  (Per entry this is
`sin(θ(k-1)) + sin(θ(k+1)) = 2 cos θ · sin(θk)` with `θ = 2πW`, `k = m - n`.) -/
theorem tridiag_commutes_with_kernel {N : ℕ} (W : ℝ) {m n : ℕ} (hm : m < N) (hn : n < N) :
    ∑ j ∈ range N, dpssTriEntry N W m j * sincKernel W j n
      = ∑ j ∈ range N, sincKernel W m j * dpssTriEntry N W j n :=
  DpssTriL.tri_mul_kernel_comm W hm hn

/-- the same with both matrices written out -/
theorem tridiag_commutes_with_kernel_explicit {N : ℕ} (W : ℝ) {m n : ℕ} (hm : m < N) (hn : n < N) :
    ∑ j ∈ range N,
        (if m = j then -Real.cos (2 * Real.pi * W) * (((N : ℝ) - 1) / 2 - (m : ℝ)) ^ 2
         else if m + 1 = j then -((j : ℝ) * ((N : ℝ) - (j : ℝ))) / 2
         else if j + 1 = m then -((m : ℝ) * ((N : ℝ) - (m : ℝ))) / 2 else 0)
        * (if j = n then 2 * W
           else Real.sin (2 * Real.pi * W * ((j : ℝ) - (n : ℝ))) / (Real.pi * ((j : ℝ) - (n : ℝ))))
      = ∑ j ∈ range N,
        (if m = j then 2 * W
         else Real.sin (2 * Real.pi * W * ((m : ℝ) - (j : ℝ))) / (Real.pi * ((m : ℝ) - (j : ℝ))))
        * (if j = n then -Real.cos (2 * Real.pi * W) * (((N : ℝ) - 1) / 2 - (j : ℝ)) ^ 2
           else if j + 1 = n then -((n : ℝ) * ((N : ℝ) - (n : ℝ))) / 2
           else if n + 1 = j then -((j : ℝ) * ((N : ℝ) - (j : ℝ))) / 2 else 0) := by
  have h := tridiag_commutes_with_kernel W hm hn
  simp only [tridiag_entries, sincKernel] at h
  exact h

/-- the matrix is UNREDUCED: every coupling `offdiag[i]`, `1 ≤ i ≤ N-1`, is non-zero (negative) -/
theorem tridiag_unreduced {N i : ℕ} (h1 : 1 ≤ i) (h2 : i < N) : (dpssOff N i : ℝ) < 0 ∧ (dpssOff N i : ℝ) ≠ 0 :=
  ⟨DpssTriL.dpssOff_neg h1 h2, DpssTriL.dpssOff_ne_zero h1 h2⟩

/-- three-term recurrence: an eigenvector of `T` whose first component is `0` is the zero vector -/
theorem tridiag_eigvec_zero_of_first_zero {N : ℕ} {W θ : ℝ} {v : ℕ → ℝ}
    (hev : ∀ i, i < N → ∑ j ∈ range N, dpssTriEntry N W i j * v j = θ * v i) (h0 : v 0 = 0) :
    ∀ i, i < N → v i = 0 :=
  DpssTriL.eigvec_zero_of_first_zero hev h0

/-- simple eigenvalues: two eigenvectors of `T` for the same eigenvalue are proportional -/
theorem tridiag_eigenspace_one_dimensional {N : ℕ} {W θ : ℝ} {u v : ℕ → ℝ}
    (hu : ∀ i, i < N → ∑ j ∈ range N, dpssTriEntry N W i j * u j = θ * u i)
    (hv : ∀ i, i < N → ∑ j ∈ range N, dpssTriEntry N W i j * v j = θ * v i)
    (hne : ∃ i, i < N ∧ v i ≠ 0) :
    ∃ c : ℝ, ∀ i, i < N → u i = c * v i :=
  DpssTriL.eigvec_proportional hu hv hne

/-- **transfer**: every (non-zero) eigenvector of the tridiagonal matrix `T` is an eigenvector of the sinc concentration
kernel `K` (`T (K v) = K (T v) = θ (K v)` and the `θ`-eigenspace of `T` is a line) -/
theorem tridiag_eigenvector_is_kernel_eigenvector {N : ℕ} {W θ : ℝ} {v : ℕ → ℝ}
    (hev : ∀ i, i < N → ∑ j ∈ range N, dpssTriEntry N W i j * v j = θ * v i)
    (hne : ∃ i, i < N ∧ v i ≠ 0) :
    ∃ μ : ℝ, ∀ n, n < N → ∑ m ∈ range N, sincKernel W n m * v m = μ * v n :=
  DpssTriL.kernel_eigvec_of_tri_eigvec hev hne

/-- non-vacuity (`N = 3`, every `W`): `(1, 0, -1)` is an eigenvector of `T` for `θ = -cos(2πW)`; it is not zero -/
example (W : ℝ) : (∀ i, i < 3 → ∑ j ∈ range 3, dpssTriEntry 3 W i j * ([1, 0, -1] : List ℝ).getD j 0
      = -Real.cos (2 * Real.pi * W) * ([1, 0, -1] : List ℝ).getD i 0) ∧
    ∃ i, i < 3 ∧ ([1, 0, -1] : List ℝ).getD i 0 ≠ 0 := by
  refine ⟨?_, 0, by norm_num, by norm_num⟩
  intro i hi
  have hi' : i = 0 ∨ i = 1 ∨ i = 2 := by omega
  rcases hi' with rfl | rfl | rfl <;>
    simp [Finset.sum_range_succ, tridiag_entries] <;> ring

/-- **headline**: if the `i`-th raw column returned by the C routine is an eigenvector (eigenvalue `θ`) of the tridiagonal
matrix the routine builds (`W = NW/N`) and has squared norm `N` (the routine's normalisation), then there is a real `μ`
such that the raw column AND the `i`-th taper returned by `dpss` are eigenvectors of the sinc concentration kernel for the
eigenvalue `μ`, and the `i`-th ratio returned by `dpss` is exactly `μ`.  (`reported_ratio_eq_eigenvalue_of_contract` with
its hypothesis "eigenvector of the kernel" replaced by "eigenvector of the matrix the C code diagonalises".) -/
theorem reported_ratio_eq_kernel_eigenvalue_of_tridiag_eigenvector {N : ℕ} (hN : 0 < N) (NW θ : ℝ)
    (raws : List (List ℝ)) (tapsum : List ℝ) {i : ℕ} (hi : i < raws.length)
    (htri : ∀ n, n < N →
      (dpssTriMul N (NW / (N : ℝ)) (raws.getD i [])).getD n 0 = θ * (raws.getD i []).getD n 0)
    (hnorm : ∑ n ∈ range N, (raws.getD i []).getD n 0 * (raws.getD i []).getD n 0 = (N : ℝ)) :
    ∃ μ : ℝ,
      (∀ n, n < N → ∑ m ∈ range N, sincKernel (NW / (N : ℝ)) n m * (raws.getD i []).getD m 0
        = μ * (raws.getD i []).getD n 0) ∧
      (∀ n, n < N →
        ∑ m ∈ range N, sincKernel (NW / (N : ℝ)) n m * ((dpssGlue N NW raws tapsum).1.getD i []).getD m 0
          = μ * ((dpssGlue N NW raws tapsum).1.getD i []).getD n 0) ∧
      (dpssGlue N NW raws tapsum).2.getD i 0 = μ := by
  have hev : ∀ n, n < N → ∑ j ∈ range N, dpssTriEntry N (NW / (N : ℝ)) n j * (raws.getD i []).getD j 0
      = θ * (raws.getD i []).getD n 0 := by
    intro n hn
    rw [← tridiag_mul_is_matrix_product _ _ hn]
    exact htri n hn
  obtain ⟨μ, hμ⟩ := tridiag_eigenvector_is_kernel_eigenvector (v := fun n => (raws.getD i []).getD n 0) hev
    (DpssTriL.exists_ne_zero_of_normsq hN _ hnorm)
  obtain ⟨h1, h2⟩ := reported_ratio_eq_eigenvalue_of_contract hN NW μ raws tapsum hi hμ hnorm
  exact ⟨μ, hμ, h1, h2⟩

/-- the same for a whole call: if EVERY raw column is an eigenvector of the tridiagonal matrix with squared norm `N`, every
returned taper is an eigenvector of the sinc kernel and every returned ratio is the corresponding kernel eigenvalue -/
theorem dpss_columns_are_kernel_eigenvectors_of_tridiag {N : ℕ} (hN : 0 < N) (NW : ℝ)
    (raws : List (List ℝ)) (tapsum : List ℝ)
    (htri : ∀ i, i < raws.length → ∃ θ : ℝ, ∀ n, n < N →
      (dpssTriMul N (NW / (N : ℝ)) (raws.getD i [])).getD n 0 = θ * (raws.getD i []).getD n 0)
    (hnorm : ∀ i, i < raws.length →
      ∑ n ∈ range N, (raws.getD i []).getD n 0 * (raws.getD i []).getD n 0 = (N : ℝ)) :
    ∀ i, i < raws.length →
      ∀ n, n < N →
        ∑ m ∈ range N, sincKernel (NW / (N : ℝ)) n m * ((dpssGlue N NW raws tapsum).1.getD i []).getD m 0
          = (dpssGlue N NW raws tapsum).2.getD i 0 * ((dpssGlue N NW raws tapsum).1.getD i []).getD n 0 := by
  intro i hi
  obtain ⟨θ, hθ⟩ := htri i hi
  obtain ⟨μ, _, h2, h3⟩ :=
    reported_ratio_eq_kernel_eigenvalue_of_tridiag_eigenvector hN NW θ raws tapsum hi hθ (hnorm i hi)
  rw [h3]
  exact h2

/-- the hypotheses are satisfiable (`N = 2`, `NW = 1/2`, i.e. `W = 1/4`, `cos(2πW) = 0`, `T = [[0, -1/2], [-1/2, 0]]`):
the column `(1, 1)` is an eigenvector of `T` for `θ = -1/2` and has squared norm `2 = N` -/
example : (∀ n, n < 2 → (dpssTriMul 2 ((1 / 2 : ℝ) / ((2 : ℕ) : ℝ)) (([[1, 1]] : List (List ℝ)).getD 0 [])).getD n 0
      = -(1 / 2) * (([[1, 1]] : List (List ℝ)).getD 0 []).getD n 0) ∧
    ∑ n ∈ range 2, (([[1, 1]] : List (List ℝ)).getD 0 []).getD n 0 * (([[1, 1]] : List (List ℝ)).getD 0 []).getD n 0
      = ((2 : ℕ) : ℝ) := by
  have hc : Real.cos (2 * Real.pi * (1 / 4)) = 0 := by
    rw [show 2 * Real.pi * (1 / 4) = Real.pi / 2 by ring, Real.cos_pi_div_two]
  constructor
  · intro n hn
    rw [tridiag_mul_is_matrix_product _ _ hn]
    have hn' : n = 0 ∨ n = 1 := by omega
    rcases hn' with rfl | rfl <;>
      simp [Finset.sum_range_succ, tridiag_entries] <;> norm_num <;> exact hc
  · simp [Finset.sum_range_succ]; norm_num

end SpecVerif.C18
