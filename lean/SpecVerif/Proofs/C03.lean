import SpecVerif.Proofs.Lemmas.Scale
import SpecVerif.Proofs.Lemmas.AdaptLoop
import SpecVerif.Proofs.C08
import SpecVerif.Proofs.C14
import Mathlib.Algebra.Star.Rat
import Mathlib.Tactic.NormNum
import SpecVerif.Proofs.Lemmas.CRatField
import SpecVerif.Proofs.Lemmas.Daniell
import SpecVerif.Proofs.Lemmas.EigenCrit
/-
  C03 — amplitude equivariance.

  "Multiplying the data by any non-zero scalar `c` (complex `c` for complex data) multiplies every PSD
  estimate and every estimated noise variance by `|c|²` and leaves model coefficients (AR, MA,
  reflection coefficients), multitaper weights and subspace / order decisions unchanged; the MUSIC
  pseudo-spectrum is unchanged and the EV pseudo-spectrum scales by `|c|`.  This holds for the
  functional estimators and for every PSD class."

  Notation: `K` is any field with an involution (`ℂ` with `star = conj`, `ℝ`/`ℚ` with the trivial one),
  `c • x` is `x.map (c * ·)`, and `|c|²` is written `c * star c` (self-adjoint, non-zero when `c ≠ 0`).
  Property theorems only; the helper lemmas are in `Proofs/Lemmas/Scale.lean` (`SpecVerif.ScaleL`).

  The per-evaluation multitaper facts are proved in `Proofs/C19.lean`:
  `C19.mt_scale` (every eigenspectrum of `c • x` is `c •` the eigenspectrum of `x`, any table) and
  `C19.mt_scale_weight` (Thomson's adaptive weight is unchanged when the spectrum value and the data
  power are both multiplied by `|c|²`); they are not restated here.  Section 9 below proves the
  statement for the WHOLE adaptive iteration (`mt_adapt_scale`, `mt_adapt_scale_data`): the
  `while` loop of `pmtm(method='adapt')` (first pass unconditional, then at most 99 conditional ones), whose
  tolerance `0.0005·σ²/NFFT` scales with the data power,
  takes the same stopping decision at every pass, so the returned weights are unchanged and the adaptive
  multitaper mean is multiplied by `|c|²` (helpers: `Proofs/Lemmas/AdaptLoop.lean`, `SpecVerif.AdaptL`).
-/
namespace SpecVerif.C03
open Finset SpecVerif SpecVerif.ScaleL SpecVerif.LSL

variable {K : Type} [Field K] [StarRing K]

/-! ### 1. DFT and periodogram -/

omit [StarRing K] in
/-- the DFT is homogeneous in the data, for any twiddle table (the FFT is a parameter of the model) -/
theorem dft_scale (tw : List K) (n : ℕ) (c : K) (x : List K) (k : ℕ) :
    dftBin tw n (x.map (c * ·)) k = c * dftBin tw n x k :=
  dftBin_map_mul tw n c x k

/-- every returned periodogram value of `c • x` is `|c|²` times the one of `x` (any window, any `NFFT`,
real or complex data, no condition on `c`) -/
theorem periodogram_scale (tw x w : List K) (nfft : ℕ) (isReal : Bool) (c : K) :
    speriodogram tw (x.map (c * ·)) w nfft isReal
      = (speriodogram tw x w nfft isReal).map ((c * star c) * ·) :=
  speriodogram_smul tw x w nfft isReal c

/-- entry form of `periodogram_scale` -/
theorem periodogram_scale_entry (tw x w : List K) (nfft : ℕ) (isReal : Bool) (c : K) (k : ℕ) :
    nth (speriodogram tw (x.map (c * ·)) w nfft isReal) k
      = (c * star c) * nth (speriodogram tw x w nfft isReal) k := by
  rw [periodogram_scale, ArmaL.nth_map_mul_left]

/-- column-wise (2-D) periodogram: every column scales by `|c|²` -/
theorem periodogram2_scale (tw : List K) (cols : List (List K)) (w : List K) (nfft : ℕ)
    (isReal : Bool) (c : K) :
    speriodogram2 tw (cols.map (fun col => col.map (c * ·))) w nfft isReal
      = (speriodogram2 tw cols w nfft isReal).map (fun col => col.map ((c * star c) * ·)) := by
  unfold speriodogram2
  rw [List.map_map, List.map_map]
  apply List.map_congr_left
  intro col _
  exact periodogram_scale tw col w nfft isReal c

/-! ### 2. correlation and correlogram -/

/-- the raw lag sums scale by `|c|²` -/
theorem corr_scale (c : K) (x y : List K) (n k : ℕ) :
    corrRaw (x.map (c * ·)) (y.map (c * ·)) n k = (c * star c) * corrRaw x y n k :=
  corrRaw_smul c x y n k

/-- the mean power (`rms²`, the variance estimate of order 0) scales by `|c|²` -/
theorem meanPow_scale (c : K) (x : List K) (n : ℕ) :
    meanPow (x.map (c * ·)) n = (c * star c) * meanPow x n :=
  meanPow_smul c x n

/-- `CORRELATION` with `norm ∈ {biased, unbiased, None}`: every lag scales by `|c|²` -/
theorem correlation_scale (c : K) (x y : List K) (L : ℕ) (norm : Norm) (hn : norm ≠ .coeff)
    (rms2 : K) :
    correlation (x.map (c * ·)) (y.map (c * ·)) L norm rms2
      = (correlation x y L norm rms2).map ((c * star c) * ·) :=
  correlation_smul c x y L norm hn rms2

/-- `xcorr` (lags `-L..L`) with `norm ∈ {biased, unbiased, None}`: every lag scales by `|c|²` -/
theorem xcorr_scale (c : K) (x y : List K) (L : ℕ) (norm : Norm) (hn : norm ≠ .coeff) (rms2 : K) :
    xcorr (x.map (c * ·)) (y.map (c * ·)) L norm rms2
      = (xcorr x y L norm rms2).map ((c * star c) * ·) :=
  xcorr_smul c x y L norm hn rms2

/-- `CORRELATION(norm='coeff')`: when the normalising power is scaled with the data (`rms2 ↦ |c|² rms2`,
which is what `rms(cx)·rms(cy)` does) the lags are unchanged.  Needs `c ≠ 0` (cancellation of `|c|²`)
and `rms2 ≠ 0` (otherwise both sides are the totalised `·/0`). -/
theorem correlation_scale_coeff {c : K} (hc : c ≠ 0) (x y : List K) (L : ℕ) {rms2 : K}
    (_hr : rms2 ≠ 0) :
    correlation (x.map (c * ·)) (y.map (c * ·)) L .coeff ((c * star c) * rms2)
      = correlation x y L .coeff rms2 :=
  correlation_smul_coeff hc x y L rms2

/-- coefficient-normalised autocorrelation with the model's `rms2 = meanPow`: invariant under `c ≠ 0`
for data of non-zero power -/
theorem autocorrelation_coeff_scale {c : K} (hc : c ≠ 0) (x : List K) (L : ℕ)
    (_hx : meanPow x x.length ≠ 0) :
    correlation (x.map (c * ·)) (x.map (c * ·)) L .coeff
        (meanPow (x.map (c * ·)) (x.map (c * ·)).length)
      = correlation x x L .coeff (meanPow x x.length) := by
  rw [List.length_map, meanPow_scale]
  exact correlation_smul_coeff hc x x L _

/-- the power of `c • x` is non-zero iff the one of `x` is (`c ≠ 0`): the side condition of
`autocorrelation_coeff_scale` is itself amplitude-independent -/
theorem meanPow_ne_zero_scale {c : K} (hc : c ≠ 0) (x : List K) (n : ℕ) :
    meanPow (x.map (c * ·)) n ≠ 0 ↔ meanPow x n ≠ 0 := by
  rw [meanPow_scale, mul_ne_zero_iff]
  exact ⟨fun h => h.2, fun h => ⟨mul_star_self_ne_zero hc, h⟩⟩

/-- `CORRELOGRAMPSD` (cross or auto, any lag window, any table) with `norm ∈ {biased, unbiased, None}`
scales by `|c|²` -/
theorem correlogram_scale (tw : List K) (c : K) (x y w : List K) (lag nfft : ℕ) (norm : Norm)
    (hn : norm ≠ .coeff) (rms2 : K) :
    correlogram tw (x.map (c * ·)) (y.map (c * ·)) w lag nfft norm rms2
      = (correlogram tw x y w lag nfft norm rms2).map ((c * star c) * ·) := by
  unfold correlogram
  simp only []
  rw [correlation_smul c x y lag norm hn, correlation_smul c y x lag norm hn]
  exact correlogramPsd_smul (star_mul_star_self c) tw _ _ w lag nfft

/-! ### 3. Levinson, Yule–Walker, MA -/

/-- the Levinson recursion on `t·r` (`t ≠ 0`): same polynomial, same reflection coefficients, error
multiplied by `t`, at every stage -/
theorem levinson_scale {t : K} (ht : t ≠ 0) (r0 : K) (T : List K) (k : ℕ) :
    (levRun (t * r0) (T.map (t * ·)) k).A = (levRun r0 T k).A ∧
    (levRun (t * r0) (T.map (t * ·)) k).ref = (levRun r0 T k).ref ∧
    (levRun (t * r0) (T.map (t * ·)) k).P = t * (levRun r0 T k).P := by
  rw [levRun_smul ht]
  exact ⟨rfl, rfl, rfl⟩

/-- the `LEVINSON` wrapper raises / succeeds identically on `r` and `t·r` when the sign test of the
code does not see `t` (`reLe0 (t·z) = reLe0 z`: true for a positive real `t`, see `guard_scale`) -/
theorem levinson_scale_status [ReOrd K] {t : K} (ht : t ≠ 0)
    (hre : ∀ z : K, reLe0 (t * z) = reLe0 z) (r0 : K) (T : List K) (order : ℕ) (allow : Bool) :
    levinson (t * r0) (T.map (t * ·)) order allow
      = (levinson r0 T order allow).map (fun st => { A := st.A, P := t * st.P, ref := st.ref }) :=
  levinson_smul ht hre r0 T order allow

/-- `aryule(c·x, p, norm)` for `norm ∈ {biased, unbiased, None}`: the AR coefficients and reflection
coefficients are those of `x`, the noise variance is multiplied by `|c|²` -/
theorem aryule_scale {c : K} (hc : c ≠ 0) (x : List K) (p : ℕ) (norm : Norm) (hn : norm ≠ .coeff) :
    (aryule (x.map (c * ·)) p norm).A = (aryule x p norm).A ∧
    (aryule (x.map (c * ·)) p norm).ref = (aryule x p norm).ref ∧
    (aryule (x.map (c * ·)) p norm).P = (c * star c) * (aryule x p norm).P := by
  rw [aryule_smul hc x p norm hn]
  exact ⟨rfl, rfl, rfl⟩

/-- `ma(c·x, Q, M)`: same status, same MA coefficients, variance multiplied by `|c|²` -/
theorem ma_scale {c : K} (hc : c ≠ 0) (x : List K) (Q M : ℕ) :
    maEstimate (x.map (c * ·)) Q M
      = (maEstimate x Q M).map (fun bv => (bv.1, (c * star c) * bv.2)) :=
  maEstimate_smul hc x Q M

/-! ### 4. Burg -/

/-- every stage of the Burg recursion on `c • x` (`c ≠ 0`): coefficients, reflection coefficients and
`temp` are those of `x`; the error sequences are multiplied by `c`; `rho` and `den` by `|c|²`.
(`(N : K)` may be anything, even `0`: no hypothesis on the characteristic.) -/
theorem burg_scale {c : K} (hc : c ≠ 0) (x : List K) (k : ℕ) :
    (burgRun (x.map (c * ·)) k).a = (burgRun x k).a ∧
    (burgRun (x.map (c * ·)) k).ref = (burgRun x k).ref ∧
    (burgRun (x.map (c * ·)) k).temp = (burgRun x k).temp ∧
    (burgRun (x.map (c * ·)) k).ef = (burgRun x k).ef.map (c * ·) ∧
    (burgRun (x.map (c * ·)) k).eb = (burgRun x k).eb.map (c * ·) ∧
    (burgRun (x.map (c * ·)) k).rho = (c * star c) * (burgRun x k).rho ∧
    (burgRun (x.map (c * ·)) k).den = (c * star c) * (burgRun x k).den := by
  rw [burgRun_smul hc]
  exact ⟨rfl, rfl, rfl, rfl, rfl, rfl, rfl⟩

/-- `arburg(c·x, order, criteria)` against `arburg(x, order, criteria)`: when the stopping rule and the
sign test do not see `|c|²` (`stop' k (|c|²ρ) = stop k ρ`, `reLe0 (|c|² z) = reLe0 z`) the two calls
raise / succeed identically, keep the same order, and the returned state is the scaled one -/
theorem arburg_scale [ReOrd K] {c : K} (hc : c ≠ 0) (stop stop' : ℕ → K → Bool)
    (hstop : ∀ k ρ, stop' k ((c * star c) * ρ) = stop k ρ)
    (hre : ∀ z : K, reLe0 ((c * star c) * z) = reLe0 z) (x : List K) (order : ℕ) (useCrit : Bool) :
    arburg (x.map (c * ·)) order useCrit stop'
      = (arburg x order useCrit stop).map (fun st =>
          { a := st.a, rho := (c * star c) * st.rho, ref := st.ref, ef := st.ef.map (c * ·),
            eb := st.eb.map (c * ·), den := (c * star c) * st.den, temp := st.temp }) :=
  arburg_smul hc stop stop' hstop hre x order useCrit

/-- the hypothesis `reLe0 (|c|² z) = reLe0 z` of `levinson_scale_status` / `arburg_scale` holds for
every `c ≠ 0` over `ℝ`, `ℂ` (any `RCLike` scalar type) when `reLe0` is the test `Re z ≤ 0` -/
theorem guard_scale {F : Type} [RCLike F] [ReOrd F]
    (hspec : ∀ z : F, reLe0 z = true ↔ RCLike.re z ≤ 0) {c : F} (hc : c ≠ 0) (z : F) :
    reLe0 ((c * star c) * z) = reLe0 z :=
  reLe0_abs2_mul hspec hc z

/-! ### 5. order-selection criteria -/

/-- how the log-based criteria move when the variance is multiplied by `t > 0`: AIC and MDL by
`N·log t`, AICc, KIC and AKICc by `log t` — independently of the order `k` -/
theorem criteria_shift (N : ℕ) {t ρ : ℝ} (ht : 0 < t) (hρ : 0 < ρ) (k : ℕ) :
    critValue .AIC N (t * ρ) k = critValue .AIC N ρ k + N * Real.log t ∧
    critValue .MDL N (t * ρ) k = critValue .MDL N ρ k + N * Real.log t ∧
    critValue .AICc N (t * ρ) k = critValue .AICc N ρ k + Real.log t ∧
    critValue .KIC N (t * ρ) k = critValue .KIC N ρ k + Real.log t ∧
    critValue .AKICc N (t * ρ) k = critValue .AKICc N ρ k + Real.log t :=
  ⟨critValue_log_smul .AIC (by decide) N ht hρ k, critValue_log_smul .MDL (by decide) N ht hρ k,
   critValue_log_smul .AICc (by decide) N ht hρ k, critValue_log_smul .KIC (by decide) N ht hρ k,
   critValue_log_smul .AKICc (by decide) N ht hρ k⟩

/-- FPE is proportional to the variance (the factor `(N+k+1)/(N-k-1)` does not involve it; nothing is
cancelled, so no condition on `N-k-1` is needed for this identity) -/
theorem criteria_fpe_linear (N : ℕ) (t ρ : ℝ) (k : ℕ) :
    critValue .FPE N (t * ρ) k = t * critValue .FPE N ρ k :=
  critValue_FPE_smul N t ρ k

/-- **the stopping test of `arburg` is amplitude-blind**: for each of the six criteria, every `t > 0`
and positive variances `ρ₁` (order `k-1`), `ρ₂` (order `k`), "criterion at order `k` exceeds the one at
order `k-1`" has the same truth value for `(tρ₁, tρ₂)` and `(ρ₁, ρ₂)`.  For the log-based criteria both
sides of the comparison move by the same shift (`criteria_shift`); for FPE both sides are multiplied by
`t > 0` (`criteria_fpe_linear`) and `t·a < t·b ↔ a < b` needs only `t > 0` — the factors
`(N+k+1)/(N-k-1)`, `(N+k)/(N-k)` may have any sign (or be the totalised `·/0`): they are the same on
both sides and are never cancelled. -/
theorem criteria_scale (cr : Crit) (N : ℕ) {t ρ₁ ρ₂ : ℝ} (ht : 0 < t) (h₁ : 0 < ρ₁) (h₂ : 0 < ρ₂)
    (k : ℕ) : critStops cr N (t * ρ₁) (t * ρ₂) k = critStops cr N ρ₁ ρ₂ k :=
  critStops_smul cr N ht h₁ h₂ k

/-- **the Burg order selected by a criterion does not depend on the amplitude** (real data): with the
stopping rule of `arburg(X, order, criteria=cr)` (`burgCritStop cr x k ρ` compares the criterion at order
`k`, variance `ρ`, with the one at order `k-1`, variance `ρ_{k-1}` of the *same* data) the order kept for
`c • x`, `c ≠ 0`, is the order kept for `x`, as long as the variances `ρ_0..ρ_order` of `x` are positive
(where their logarithms exist). -/
theorem burg_order_scale {c : ℝ} (hc : c ≠ 0) (cr : Crit) (x : List ℝ) (order : ℕ)
    (hpos : ∀ j, j ≤ order → 0 < (burgRun x j).rho) :
    burgOrder (burgCritStop cr (x.map (c * ·))) (x.map (c * ·)) order
      = burgOrder (burgCritStop cr x) x order :=
  burgOrder_crit_smul hc cr x order hpos

/-- **`arburg` with a criterion, end to end** (real data, `reLe0` = the test `z ≤ 0`): for `c ≠ 0` and
positive variances `ρ_0..ρ_order` of `x`, `arburg(c·x, order, criteria=cr)` raises / succeeds exactly
like `arburg(x, order, criteria=cr)`, keeps the same order, and returns the same AR and reflection
coefficients with the variance multiplied by `c²` -/
theorem arburg_criteria_scale [ReOrd ℝ] (hspec : ∀ z : ℝ, reLe0 z = true ↔ z ≤ 0) {c : ℝ}
    (hc : c ≠ 0) (cr : Crit) (x : List ℝ) (order : ℕ) (useCrit : Bool)
    (hpos : ∀ j, j ≤ order → 0 < (burgRun x j).rho) :
    arburg (x.map (c * ·)) order useCrit (burgCritStop cr (x.map (c * ·)))
      = (arburg x order useCrit (burgCritStop cr x)).map (fun st =>
          { a := st.a, rho := (c * star c) * st.rho, ref := st.ref, ef := st.ef.map (c * ·),
            eb := st.eb.map (c * ·), den := (c * star c) * st.den, temp := st.temp }) :=
  arburg_crit_smul hspec hc cr x order useCrit hpos

/-! ### 6. parametric PSDs, class glue, minimum variance -/

/-- AR / MA / ARMA classes (pburg, pyule, pcovar, pmodcovar, pma, parma): when the variance is
multiplied by `s` and the coefficients are unchanged, the class PSD (folded for real data, scaled by
frequency or not) is multiplied by `s` -/
theorem psd_scale_ar_family (tw : List K) (A B : Option (List K)) (s rho T : K) (nfft : ℕ)
    (isReal : Bool) (sbf : Bool) (twoPi fs : K) :
    classPsd (arma2psd tw A B (s * rho) T nfft) isReal nfft sbf twoPi fs
      = (classPsd (arma2psd tw A B rho T nfft) isReal nfft sbf twoPi fs).map (s * ·) := by
  rw [C08.arma2psd_linear_rho]
  exact classPsd_map_mul s _ isReal nfft sbf twoPi fs

omit [StarRing K] in
/-- **every PSD class**: the `__call__` glue of all twelve estimator classes (`fold2`: pburg … pminvar,
pcorrelogram, MultiTapering; `take`: Periodogram; `eigen`: pmusic, pev) is entry-wise linear in the raw
estimate of the functional estimator, so a raw estimate multiplied by `t` gives a class PSD multiplied
by `t` (whatever `sides` folding and `scale_by_freq`) -/
theorem class_scale (t : K) (kind : GlueKind) (raw : List K) (isReal : Bool) (nfft : ℕ) (sbf : Bool)
    (twoPi fs : K) :
    classCall kind (raw.map (t * ·)) isReal nfft sbf twoPi fs
      = (classCall kind raw isReal nfft sbf twoPi fs).map (t * ·) :=
  classCall_map_mul t kind raw isReal nfft sbf twoPi fs

/-- the Burg spectrum of `c • x` (`arma2psd` of the order-`p` Burg model) is `|c|²` times the one of `x` -/
theorem pburg_scale {c : K} (hc : c ≠ 0) (tw x : List K) (p : ℕ) (T : K) (nfft : ℕ) :
    arma2psd tw (some (burgRun (x.map (c * ·)) p).a) none (burgRun (x.map (c * ·)) p).rho T nfft
      = (arma2psd tw (some (burgRun x p).a) none (burgRun x p).rho T nfft).map ((c * star c) * ·) := by
  rw [(burg_scale hc x p).1, (burg_scale hc x p).2.2.2.2.2.1, C08.arma2psd_linear_rho]

/-- the Yule–Walker spectrum of `c • x` is `|c|²` times the one of `x` -/
theorem pyule_scale {c : K} (hc : c ≠ 0) (tw x : List K) (p : ℕ) (norm : Norm) (hn : norm ≠ .coeff)
    (T : K) (nfft : ℕ) :
    arma2psd tw (some (aryule (x.map (c * ·)) p norm).A) none (aryule (x.map (c * ·)) p norm).P T nfft
      = (arma2psd tw (some (aryule x p norm).A) none (aryule x p norm).P T nfft).map
          ((c * star c) * ·) := by
  rw [(aryule_scale hc x p norm hn).1, (aryule_scale hc x p norm hn).2.2, C08.arma2psd_linear_rho]

/-- Musicus' ψ sequence is divided by `s` when the error power is multiplied by a self-adjoint `s ≠ 0` -/
theorem minvar_psi_scale {s : K} (hs : star s = s) (_hs0 : s ≠ 0) (a : List K) (P : K) (nfft : ℕ) :
    minvarPsi a (s * P) nfft = (minvarPsi a P nfft).map (· / s) :=
  minvarPsi_smul hs a P nfft

/-- hence the minimum-variance PSD `sampling / Re(FFT ψ)` is multiplied by `s` (any table; uses
`rePart (z / s) = rePart z / s` for self-adjoint `s`) -/
theorem minvar_scale {s : K} (hs : star s = s) (_hs0 : s ≠ 0) (tw a : List K) (P fs : K) (nfft : ℕ) :
    minvarPsd tw a (s * P) fs nfft = (minvarPsd tw a P fs nfft).map (s * ·) :=
  minvarPsd_smul hs tw a P fs nfft

/-- `minvar(c·x, m, sampling, NFFT)`: PSD multiplied by `|c|²`, AR vector and reflection coefficients
unchanged -/
theorem minvar_function_scale {c : K} (hc : c ≠ 0) (tw x : List K) (m : ℕ) (fs : K) (nfft : ℕ) :
    (minvar tw (x.map (c * ·)) m fs nfft).psd = (minvar tw x m fs nfft).psd.map ((c * star c) * ·) ∧
    (minvar tw (x.map (c * ·)) m fs nfft).ar = (minvar tw x m fs nfft).ar ∧
    (minvar tw (x.map (c * ·)) m fs nfft).ref = (minvar tw x m fs nfft).ref := by
  rw [minvar_smul hc]
  exact ⟨rfl, rfl, rfl⟩

/-! ### 7. least squares (covariance and modified covariance methods) -/

/-- the normal equations of `min ‖X₁ + X_c a‖²` are invariant under scaling the data matrix by `c ≠ 0`,
and the residual energy at any `a` is multiplied by `|c|²` -/
theorem ls_scale {c : K} (hc : c ≠ 0) (X1 : ℕ → K) (Xc : ℕ → ℕ → K) (r p : ℕ) (a : ℕ → K) :
    (NormalEq (fun i => c * X1 i) (fun i j => c * Xc i j) r p a ↔ NormalEq X1 Xc r p a) ∧
    lsEnergy (fun i => c * X1 i) (fun i j => c * Xc i j) r p a
      = (c * star c) * lsEnergy X1 Xc r p a :=
  ⟨normalEq_rowscale (mul_star_self_ne_zero hc) (fun _ => c) X1 Xc r p (fun _ _ => rfl) a,
   lsEnergy_rowscale (fun _ => c) X1 Xc r p (fun _ _ => rfl) a⟩

/-- row-wise version (the 'modified' data matrix of `c • x` has its forward rows multiplied by `c` and
its conjugated backward rows by `conj c`): any row factors `d i` of common squared modulus `s ≠ 0` -/
theorem ls_scale_rows {s : K} (hs : s ≠ 0) (d : ℕ → K) (X1 : ℕ → K) (Xc : ℕ → ℕ → K) (r p : ℕ)
    (hd : ∀ i, i < r → d i * star (d i) = s) (a : ℕ → K) :
    (NormalEq (fun i => d i * X1 i) (fun i j => d i * Xc i j) r p a ↔ NormalEq X1 Xc r p a) ∧
    lsEnergy (fun i => d i * X1 i) (fun i j => d i * Xc i j) r p a = s * lsEnergy X1 Xc r p a :=
  ⟨normalEq_rowscale hs d X1 Xc r p hd a, lsEnergy_rowscale d X1 Xc r p hd a⟩

/-- **covariance method on the data**: `a` satisfies the normal equations of the 'covariance' data
matrix of `c • x` iff it does for `x` (so the solver contract pins the same `arcovar` coefficients), and
the forward prediction-error energy (the returned `e`, see `C14.arcovar_error`) scales by `|c|²` -/
theorem arcovar_scale {c : K} (hc : c ≠ 0) (x : List K) (p : ℕ) (a : ℕ → K) :
    (NormalEq (col0 (corrmtx (x.map (c * ·)) p .covariance))
        (colR (corrmtx (x.map (c * ·)) p .covariance)) ((x.map (c * ·)).length - p) p a
      ↔ NormalEq (col0 (corrmtx x p .covariance)) (colR (corrmtx x p .covariance))
          (x.length - p) p a) ∧
    fwdEnergy (x.map (c * ·)) p a = (c * star c) * fwdEnergy x p a := by
  refine ⟨?_, fwdEnergy_smul c x p a⟩
  rw [C14.covariance_normalEq_iff, C14.covariance_normalEq_iff, List.length_map]
  apply forall_congr'
  intro b
  apply imp_congr_right
  intro _
  rw [normalSum_fwd_smul, mul_eq_zero]
  exact ⟨fun h => h.resolve_left (mul_star_self_ne_zero hc), Or.inr⟩

/-- **modified covariance method on the data**: same statement for the forward-backward problem -/
theorem modcovar_scale {c : K} (hc : c ≠ 0) (x : List K) (p : ℕ) (a : ℕ → K) :
    (NormalEq (col0 (corrmtx (x.map (c * ·)) p .modified))
        (colR (corrmtx (x.map (c * ·)) p .modified)) (2 * ((x.map (c * ·)).length - p)) p a
      ↔ NormalEq (col0 (corrmtx x p .modified)) (colR (corrmtx x p .modified))
          (2 * (x.length - p)) p a) ∧
    fwdEnergy (x.map (c * ·)) p a + bwdEnergy (x.map (c * ·)) p a
      = (c * star c) * (fwdEnergy x p a + bwdEnergy x p a) := by
  refine ⟨?_, by rw [fwdEnergy_smul, bwdEnergy_smul, mul_add]⟩
  rw [C14.modified_normalEq_iff, C14.modified_normalEq_iff, List.length_map]
  apply forall_congr'
  intro b
  apply imp_congr_right
  intro _
  rw [normalSum_fwd_smul, normalSum_bwd_smul, ← mul_add, mul_eq_zero]
  exact ⟨fun h => h.resolve_left (mul_star_self_ne_zero hc), Or.inr⟩

/-- **`arcovar` on scaled data, with the model's verified solver** (lawful pivot test, see C14 section 6):
if `arcovar` returns `(a, e)` on `x` and `(a', e')` on `c • x`, `c ≠ 0`, then the coefficients are the same
and the error is multiplied by `|c|²` — no solver-contract hypothesis. -/
theorem arcovar_scale_solver [IsZero K] [GJL.LawfulIsZero K] {c : K} (hc : c ≠ 0) (x : List K) (p : ℕ)
    (a a' : List K) (e e' : K)
    (h : arcovar x p = some (a, e)) (h' : arcovar (x.map (c * ·)) p = some (a', e')) :
    a' = a ∧ e' = (c * star c) * e := by
  have hn' := (C14.lsFit_normalEq _ _ p a' e' h').1
  have hn := (arcovar_scale hc x p (nth a')).1.mp hn'
  obtain ⟨hl, huniq⟩ := C14.lsFit_unique _ _ p a e h
  have hA : a' = a := GJL.list_eq_of_nth_eq hl (C14.lsFit_unique _ _ p a' e' h').1 (huniq _ hn)
  refine ⟨hA, ?_⟩
  rw [(C14.arcovar_normalEq _ p a' e' h').2.1, (arcovar_scale hc x p (nth a')).2, hA,
    ← (C14.arcovar_normalEq x p a e h).2.1]

/-- **`modcovar` on scaled data, with the model's verified solver**: same coefficients, error `× |c|²` -/
theorem modcovar_scale_solver [IsZero K] [GJL.LawfulIsZero K] {c : K} (hc : c ≠ 0) (x : List K) (p : ℕ)
    (a a' : List K) (e e' : K)
    (h : modcovar x p = some (a, e)) (h' : modcovar (x.map (c * ·)) p = some (a', e')) :
    a' = a ∧ e' = (c * star c) * e := by
  have hn' := (C14.lsFit_normalEq _ _ p a' e' h').1
  have hn := (modcovar_scale hc x p (nth a')).1.mp hn'
  obtain ⟨hl, huniq⟩ := C14.lsFit_unique _ _ p a e h
  have hA : a' = a := GJL.list_eq_of_nth_eq hl (C14.lsFit_unique _ _ p a' e' h').1 (huniq _ hn)
  refine ⟨hA, ?_⟩
  rw [(C14.modcovar_normalEq _ p a' e' h').2.1, (modcovar_scale hc x p (nth a')).2, hA,
    ← (C14.modcovar_normalEq x p a e h).2.1]

/-! ### 8. MUSIC / EV (relative to the SVD contract) and the subspace decision

Scaling the data by `c` multiplies the forward-backward matrix by `c` / `conj c` row-wise, hence its
singular values by `t = |c|` and leaves the right singular subspaces unchanged: the SVD parameter of the
model becomes `(S.map (t * ·), cols)`. -/

/-- what scaling does to the input of the SVD: the forward rows of the forward-backward matrix are
multiplied by `c`, the conjugated backward rows by `conj c` (so `FBᴴ·FB` is multiplied by `|c|²`: singular
values by `|c|`, right singular subspaces unchanged — the SVD itself is a parameter of the model) -/
theorem fb_matrix_scale (c : K) (x : List K) (P : ℕ) :
    fbMatrix (x.map (c * ·)) P
      = vec (2 * fbNP x.length P) (fun i =>
          if i < fbNP x.length P then vec P (fun k => c * nth x (i + P - 1 - k))
          else vec P (fun k => star c * star (nth x (i - fbNP x.length P + k + 1)))) :=
  fbMatrix_smul c x P

/-- MUSIC: the denominator (hence the pseudo-spectrum) does not read the singular values at all -/
theorem eigen_scale_music (tw : List K) (cols : List (List K)) (S : List K) (t : K)
    (nsig P nfft k : ℕ) :
    eigenDenom tw cols (S.map (t * ·)) nsig P nfft false k
      = eigenDenom tw cols S nsig P nfft false k :=
  eigenDenom_music_indep tw cols S _ nsig P nfft k

/-- EV: the denominator is divided by `t` -/
theorem eigen_scale_ev {t : K} (_ht : t ≠ 0) (tw : List K) (cols : List (List K)) (S : List K)
    (nsig P nfft k : ℕ) :
    eigenDenom tw cols (S.map (t * ·)) nsig P nfft true k
      = eigenDenom tw cols S nsig P nfft true k / t :=
  eigenDenom_ev_smul t tw cols S nsig P nfft k

/-- the returned pseudo-spectra (`1/denominator`, centre-DC ordered): MUSIC unchanged, EV multiplied
by `t` -/
theorem eigen_psd_scale {t : K} (_ht : t ≠ 0) (tw : List K) (cols : List (List K)) (S : List K)
    (nsig P nfft : ℕ) :
    eigenPsd tw cols (S.map (t * ·)) nsig P nfft false = eigenPsd tw cols S nsig P nfft false ∧
    eigenPsd tw cols (S.map (t * ·)) nsig P nfft true
      = (eigenPsd tw cols S nsig P nfft true).map (t * ·) :=
  ⟨eigenPsd_music_indep tw cols S _ nsig P nfft, eigenPsd_ev_smul t tw cols S nsig P nfft⟩

omit [StarRing K] in
/-- the signal-subspace dimension chosen by `_get_signal_space` (explicit NSIG, or the threshold rule
"singular values above `threshold · min S`") is unchanged when all singular values are multiplied by a
`t` that the comparison does not see (`reGt (t·a) (t·b) = reGt a b`: any positive real `t`).
The AIC/MDL argmin is a parameter of the model and is passed through unchanged. -/
theorem signal_space_scale [ReOrd K] {t : K} (hgt : ∀ a b : K, reGt (t * a) (t * b) = reGt a b)
    (S : List K) (nsig : Option ℕ) (threshold : Option K) (critArgmin : ℕ) :
    signalSpace (S.map (t * ·)) nsig threshold critArgmin
      = signalSpace S nsig threshold critArgmin :=
  signalSpace_smul hgt S nsig threshold critArgmin

/-- the hypothesis of `signal_space_scale` holds for positive real `t` over any `RCLike` scalar type
when `reGt` is the test `Re a > Re b` -/
theorem guard_scale_gt {F : Type} [RCLike F] [ReOrd F]
    (hspec : ∀ a b : F, reGt a b = true ↔ RCLike.re a > RCLike.re b) {t : ℝ} (ht : 0 < t) (a b : F) :
    reGt ((t : F) * a) ((t : F) * b) = reGt a b :=
  reGt_abs_mul hspec ht a b

/-! ### 9. the adaptive multitaper weighting: the whole iteration -/

section Adapt
open SpecVerif.AdaptL SpecVerif.ShiftL

/-- **adaptive multitaper weights, the whole loop**: let `t = c·conj c = |c|²` be non-zero and invisible
to the two comparisons of the model (`reGt (t·a) (t·b) = reGt a b`, `reLe0 (t·z) = reLe0 z`: any positive
real `t`, see `mt_adapt_scale_data`).  With the data multiplied by `c` and every `|eigenspectrum|²`
multiplied by `t`, `pmtm(method='adapt')` — the start estimate, the data power `σ²`, the tolerance
`tolc·σ²/NFFT`, and all (at least one, at most 100) passes of the `while` loop with its stopping test
`Σ_f|S[f]-S1[f]|/NFFT > tol` — returns the SAME `NFFT × nwin` table of weights, and the adaptive
multitaper mean `Σ_t W[f][t]·SkA[t][f]/nwin` is multiplied by `t`.  No hypothesis on `NFFT`, `N`, `nwin`,
the eigenvalues or `tolc`: nothing is cancelled except the common factor `t` in Thomson's weight. -/
theorem mt_adapt_scale [ReOrd K] {t : K} (ht : t ≠ 0)
    (hgt : ∀ a b : K, reGt (t * a) (t * b) = reGt a b) (hre : ∀ z : K, reLe0 (t * z) = reLe0 z)
    {c : K} (hct : c * star c = t) (x lams : List K) (SkA : List (List K)) (nfft : ℕ) (tolc : K) :
    pmtmWeights .adapt (x.map (c * ·)) lams (SkA.map (·.map (t * ·))) nfft tolc
        = pmtmWeights .adapt x lams SkA nfft tolc ∧
    mtMean .adapt (SkA.map (·.map (t * ·)))
        (pmtmWeights .adapt (x.map (c * ·)) lams (SkA.map (·.map (t * ·))) nfft tolc) nfft lams.length
      = (mtMean .adapt SkA (pmtmWeights .adapt x lams SkA nfft tolc) nfft lams.length).map
          (t * ·) := by
  have hSk : ∀ τ f, f < nfft →
      nth ((SkA.map (·.map (t * ·))).getD τ []) f = t * nth (SkA.getD τ []) f :=
    fun τ f _ => nth_getD_map_scale t SkA τ f
  have hW := pmtmWeights_adapt_scale ht hgt hre hct x lams _ SkA nfft tolc hSk
  refine ⟨hW, ?_⟩
  rw [hW]
  exact mtMean_adapt_scale t _ SkA _ nfft lams.length hSk

/-- the table of squared eigenspectra that `pmtm` / `MultiTapering` build from the data and the tapers
(`mtSkAbs2`, the table of `C04.multitaper_shift`; `= GridL.mtSkA` of C05 by `AdaptL.mtSkA_eq_mtSkAbs2`):
for `c • x` every entry is multiplied by `|c|²` (from `C19.mt_scale` and `|c z|² = |c|²|z|²`) -/
theorem mt_table_scale (tw x : List K) (tapers : List (List K)) (nfft : ℕ) (c : K) :
    mtSkAbs2 tw (x.map (c * ·)) tapers nfft
      = (mtSkAbs2 tw x tapers nfft).map (·.map ((c * star c) * ·)) :=
  mtSkAbs2_scale tw x tapers nfft c

/-- **adaptive multitaper, end to end** (`F = ℝ`, `ℂ`, any `RCLike` scalar type; `reLe0` the test
`Re z ≤ 0`, `reGt` the test `Re a > Re b`): multiplying the data by any `c ≠ 0` leaves the adaptive weights
returned by `pmtm(method='adapt')` unchanged — the whole iteration, with the eigenspectra computed by the
model from the data and the tapers (any twiddle table) — and multiplies the adaptive multitaper mean by
`|c|² = c·conj c`. -/
theorem mt_adapt_scale_data {F : Type} [RCLike F] [ReOrd F]
    (hspec : ∀ z : F, reLe0 z = true ↔ RCLike.re z ≤ 0)
    (hgt : ∀ a b : F, reGt a b = true ↔ RCLike.re a > RCLike.re b) {c : F} (hc : c ≠ 0)
    (tw x lams : List F) (tapers : List (List F)) (nfft : ℕ) (tolc : F) :
    pmtmWeights .adapt (x.map (c * ·)) lams (mtSkAbs2 tw (x.map (c * ·)) tapers nfft) nfft tolc
        = pmtmWeights .adapt x lams (mtSkAbs2 tw x tapers nfft) nfft tolc ∧
    mtMean .adapt (mtSkAbs2 tw (x.map (c * ·)) tapers nfft)
        (pmtmWeights .adapt (x.map (c * ·)) lams (mtSkAbs2 tw (x.map (c * ·)) tapers nfft) nfft tolc)
        nfft lams.length
      = (mtMean .adapt (mtSkAbs2 tw x tapers nfft)
          (pmtmWeights .adapt x lams (mtSkAbs2 tw x tapers nfft) nfft tolc) nfft lams.length).map
          ((c * star c) * ·) := by
  rw [mt_table_scale]
  exact mt_adapt_scale (mul_star_self_ne_zero hc) (reGt_abs2_mul hgt hc)
    (reLe0_abs2_mul hspec hc) rfl x lams _ nfft tolc

/-- non-vacuity of `mt_adapt_scale`: `K = ℚ` (trivial involution, tests `≤`, `>` on `ℚ`), `c = -3`,
`t = 9`; the order hypotheses hold, and on data `[1, 1]`, eigenvalues `[1/2, 1/4]`, `SkA = [[1, 2], [3, 4]]`,
`NFFT = 2`, `tolc = 4` the loop makes exactly one pass (not zero, not 100) for both amplitudes and returns
the same non-trivial weights (the example of `C19`) -/
example :
    letI : ReOrd ℚ := ⟨fun a => a ≤ 0, fun a b => a > b⟩
    ((∀ a b : ℚ, reGt ((9 : ℚ) * a) (9 * b) = reGt a b) ∧ (∀ z : ℚ, reLe0 ((9 : ℚ) * z) = reLe0 z) ∧
      (-3 : ℚ) * star (-3 : ℚ) = 9) ∧
    pmtmWeights .adapt (([1, 1] : List ℚ).map ((-3) * ·)) [1 / 2, 1 / 4]
        (([[1, 2], [3, 4]] : List (List ℚ)).map (·.map (9 * ·))) 2 4 = [[8 / 9, 16 / 25], [9 / 8, 1]] ∧
    pmtmWeights .adapt ([1, 1] : List ℚ) [1 / 2, 1 / 4] [[1, 2], [3, 4]] 2 4
        = [[8 / 9, 16 / 25], [9 / 8, 1]] := by
  refine ⟨⟨?_, ?_, by norm_num⟩, by decide +kernel, by decide +kernel⟩
  · intro a b
    show decide (9 * a > 9 * b) = decide (a > b)
    rw [decide_eq_decide]
    constructor <;> intro h <;> linarith
  · intro z
    show decide (9 * z ≤ 0) = decide (z ≤ 0)
    rw [decide_eq_decide]
    constructor <;> intro h <;> linarith

end Adapt

/-! ### non-vacuity -/

/-- `K = ℚ` (trivial involution), `x = [1, 2, 4]`, `c = -3`: `aryule` of order 2 has variance `9` times
the one of `x` (`= 9 · 5525/1023`), same coefficients -/
example : (aryule (([1, 2, 4] : List ℚ).map ((-3) * ·)) 2 .biased).P = 9 * (5525 / 1023)
    ∧ (aryule ([1, 2, 4] : List ℚ) 2 .biased).P = 5525 / 1023
    ∧ (aryule (([1, 2, 4] : List ℚ).map ((-3) * ·)) 2 .biased).A
        = (aryule ([1, 2, 4] : List ℚ) 2 .biased).A := by
  decide +kernel

/-- the guard hypothesis of `levinson_scale_status` is satisfiable: `K = ℚ`, `t = 4`, the test `z ≤ 0` -/
example : letI : ReOrd ℚ := ⟨fun a => a ≤ 0, fun a b => a > b⟩
    ∀ z : ℚ, reLe0 ((4 : ℚ) * z) = reLe0 z := by
  intro z
  show decide (4 * z ≤ 0) = decide (z ≤ 0)
  rw [decide_eq_decide]
  constructor <;> intro h <;> linarith

/-- `c ≠ 0` cannot be dropped from `burg_scale`: with `c = 0` the first reflection coefficient is the
totalised `0/0 = 0` instead of `-4/5` (`x = [1, 2]` over `ℚ`) -/
example : (burgRun (([1, 2] : List ℚ).map ((0 : ℚ) * ·)) 1).ref ≠ (burgRun ([1, 2] : List ℚ) 1).ref := by
  decide +kernel

/-! ### 11. Daniell periodogram (`DaniellPeriodogram`, `pdaniell`): smoothing is linear

The smoothing stage averages the periodogram over clipped windows of `2P+1` bins; the window positions and the divisors
depend only on the number of bins and on `P`, never on the values — so the estimate scales with the periodogram. -/

omit [StarRing K] in
/-- the number of Daniell outputs depends only on the number of periodogram bins and on `P` -/
theorem daniell_length (psd : List K) (P : ℕ) : (daniell psd P).length = daniellLen psd.length P := by
  simp [daniell]

omit [StarRing K] in
/-- smoothing commutes with scaling by ANY factor `s` (no hypothesis: also at the `count = 0` corner) -/
theorem daniell_scale (s : K) (psd : List K) (P : ℕ) :
    daniell (psd.map (s * ·)) P = (daniell psd P).map (s * ·) :=
  DaniellL.daniell_smul s psd P

/-- **Daniell periodogram of `c • x` = `|c|²` × Daniell periodogram of `x`**, any window, any `NFFT`, any `P`,
real or complex data, any `c` -/
theorem daniell_periodogram_scale (tw x w : List K) (nfft P : ℕ) (isReal : Bool) (c : K) :
    daniellPeriodogram tw (x.map (c * ·)) w nfft P isReal
      = (daniellPeriodogram tw x w nfft P isReal).map ((c * star c) * ·) := by
  unfold daniellPeriodogram
  rw [periodogram_scale, daniell_scale]

omit [StarRing K] in
/-- every Daniell output is the arithmetic mean of the `count` bins it covers (and `1 ≤ count ≤ 2P+1` whenever `P ≥ 1` and
the periodogram has at least two bins — `DaniellL.daniellCount_pos`, `daniellCount_le`) -/
theorem daniell_bin_mean [CharZero K] (psd : List K) (P i : ℕ) (hP : 1 ≤ P) (hL : 2 ≤ psd.length)
    (hi : i < daniellLen psd.length P) :
    (daniellCount psd.length P i : K) * nth (daniell psd P) i
      = ∑ j ∈ range (daniellCount psd.length P i), nth psd (daniellLo P i + j) ∧
    0 < daniellCount psd.length P i ∧ daniellCount psd.length P i ≤ 2 * P + 1 := by
  have hc := DaniellL.daniellCount_pos psd.length P i hP hL hi
  refine ⟨?_, hc, DaniellL.daniellCount_le _ _ _⟩
  rw [daniell, nth_vec, if_pos hi]
  exact DaniellL.daniellBin_mean psd P i hc

/-- non-vacuity / shape: 9 one-sided bins, `P = 1`: three outputs, the first one skips bin 0 -/
example : daniell ([9, 1, 2, 3, 4, 5, 6, 7, 8] : List ℚ) 1 = [1, 3, 6] := by
  simp only [daniell, daniellLen, vec, List.length_cons, List.length_nil]
  norm_num [List.range_succ, daniellBin, daniellCount, daniellHi, daniellLo, sumR, nth, Finset.sum_range_succ]

/-! ### 12. the AIC / MDL order selection of the subspace methods (`aic_eigen`, `mdl_eigen`, `NSIG = argmin + 1`)

Scaling the data by `c` multiplies every singular value of the data matrix by `t = |c| > 0`.  Every criterion value then
moves by the SAME constant (`2N·ln t` for AIC, `N·ln t` for MDL — not zero, because the code divides the `m − 1` tail values
by `m`), so the position of the minimum, hence the signal-subspace dimension, is unchanged. -/

/-- AIC values of the scaled singular values = AIC values + `2N ln t`, entry by entry -/
theorem aic_eigen_scale {t : ℝ} (ht : 0 < t) (s : List ℝ) (hs : ∀ i, i < s.length → 0 < s.getD i 0) (N : ℕ) :
    aicEigen (s.map (t * ·)) N = (aicEigen s N).map (· + 2 * N * Real.log t) := by
  unfold aicEigen vec
  rw [List.length_map, List.map_map]
  apply List.map_congr_left
  intro k hk
  have hk' : k + 2 ≤ s.length := by have := List.mem_range.mp hk; omega
  have hm : ((s.length - k : ℕ) : ℝ) ≠ 0 := Nat.cast_ne_zero.mpr (by omega)
  simp only [Function.comp, List.length_map, EigenCritL.eigLnRatio_smul ht s hs k hk']
  field_simp
  ring

/-- MDL values of the scaled singular values = MDL values + `N ln t` -/
theorem mdl_eigen_scale {t : ℝ} (ht : 0 < t) (s : List ℝ) (hs : ∀ i, i < s.length → 0 < s.getD i 0) (N : ℕ) :
    mdlEigen (s.map (t * ·)) N = (mdlEigen s N).map (· + N * Real.log t) := by
  unfold mdlEigen vec
  rw [List.length_map, List.map_map]
  apply List.map_congr_left
  intro k hk
  have hk' : k + 2 ≤ s.length := by have := List.mem_range.mp hk; omega
  have hm : ((s.length - k : ℕ) : ℝ) ≠ 0 := Nat.cast_ne_zero.mpr (by omega)
  simp only [Function.comp, List.length_map, EigenCritL.eigLnRatio_smul ht s hs k hk']
  field_simp
  ring

/-- **the subspace order decision does not depend on the amplitude**: with positive singular values, `NSIG` chosen by AIC
or MDL is the same for `t·S` and `S` (any `t > 0`, any number of singular values, any sample size) -/
theorem signal_space_crit_scale {t : ℝ} (ht : 0 < t) (s : List ℝ) (hs : ∀ i, i < s.length → 0 < s.getD i 0)
    (NP : ℕ) (mdl : Bool) :
    signalSpaceCrit (s.map (t * ·)) NP mdl = signalSpaceCrit s NP mdl := by
  unfold signalSpaceCrit
  cases mdl
  · simp only [Bool.false_eq_true, if_false]
    rw [aic_eigen_scale ht s hs, EigenCritL.argminFirst_shift]
  · simp only [if_true]
    rw [mdl_eigen_scale ht s hs, EigenCritL.argminFirst_shift]

/-- non-vacuity: three positive singular values, two criterion values each -/
example : (aicEigen ([4, 2, 1] : List ℝ) 10).length = 2 ∧ (∀ i, i < 3 → 0 < ([4, 2, 1] : List ℝ).getD i 0) := by
  refine ⟨by simp [aicEigen], ?_⟩
  intro i hi
  interval_cases i <;> norm_num

/-! ### instantiation at the executed scalar type `CRat`

`Lemmas/CRatField.lean` makes the Gaussian rationals of the executable model a `Field` / `StarRing` whose
operations ARE the model's hand-written instances.  The theorems below are the generic theorems of this
file specialised to `K := CRat` (by plain application — no rewriting): their statements elaborate to the
model functions applied to the model's own instances (`CRat.instAdd`, `CRat.instMul`, `CRat.instDiv`, …,
`CRat.instConj`), i.e. to the code that the differential test executes; `conj` is the model's conjugation.
The `example … := rfl` lines check that the `Field`-path elaboration used by the generic theorems,
instantiated at `CRat`, is that very function. -/
section CRatInstantiation

open SpecVerif.CRatL in
/-- **`levinson_scale_status` for the executed model**, `t = |c|²`: the hypothesis `hre` on the sign test
is discharged for the model's `instReOrdCRat` (`CRatL.reLe0_abs2_mul_CRat`) -/
theorem levinson_scale_status_CRat {c : CRat} (hc : c ≠ 0) (r0 : CRat) (T : List CRat) (order : ℕ)
    (allow : Bool) :
    levinson ((c * conj c) * r0) (T.map ((c * conj c) * ·)) order allow
      = (levinson r0 T order allow).map
          (fun st => { A := st.A, P := (c * conj c) * st.P, ref := st.ref }) :=
  levinson_scale_status (mul_star_self_ne_zero hc) (reLe0_abs2_mul_CRat hc) r0 T order allow

open SpecVerif.CRatL in
/-- **`arburg_scale` for the executed model**: `hre` discharged -/
theorem arburg_scale_CRat {c : CRat} (hc : c ≠ 0) (stop stop' : ℕ → CRat → Bool)
    (hstop : ∀ k ρ, stop' k ((c * conj c) * ρ) = stop k ρ) (x : List CRat) (order : ℕ)
    (useCrit : Bool) :
    arburg (x.map (c * ·)) order useCrit stop'
      = (arburg x order useCrit stop).map (fun st =>
          { a := st.a, rho := (c * conj c) * st.rho, ref := st.ref, ef := st.ef.map (c * ·),
            eb := st.eb.map (c * ·), den := (c * conj c) * st.den, temp := st.temp }) :=
  arburg_scale hc stop stop' hstop (reLe0_abs2_mul_CRat hc) x order useCrit

/-- **`arcovar_scale_solver` for the executed model**: the lawfulness of the pivot test is the instance
`CRat.instLawfulIsZero` -/
theorem arcovar_scale_solver_CRat {c : CRat} (hc : c ≠ 0) (x : List CRat) (p : ℕ)
    (a a' : List CRat) (e e' : CRat)
    (h : arcovar x p = some (a, e)) (h' : arcovar (x.map (c * ·)) p = some (a', e')) :
    a' = a ∧ e' = (c * conj c) * e :=
  arcovar_scale_solver hc x p a a' e e' h h'

open SpecVerif.CRatL in
/-- **`signal_space_scale` for the executed model**, `t = |c|²`: `hgt` discharged -/
theorem signal_space_scale_CRat {c : CRat} (hc : c ≠ 0)
    (S : List CRat) (nsig : Option ℕ) (threshold : Option CRat) (critArgmin : ℕ) :
    signalSpace (S.map ((c * conj c) * ·)) nsig threshold critArgmin
      = signalSpace S nsig threshold critArgmin :=
  signal_space_scale (reGt_abs2_mul_CRat hc) S nsig threshold critArgmin

open SpecVerif.CRatL in
/-- **`mt_adapt_scale` for the executed model**: both comparison hypotheses discharged -/
theorem mt_adapt_scale_CRat {c : CRat} (hc : c ≠ 0) (x lams : List CRat) (SkA : List (List CRat))
    (nfft : ℕ) (tolc : CRat) :
    pmtmWeights .adapt (x.map (c * ·)) lams (SkA.map (·.map ((c * conj c) * ·))) nfft tolc
        = pmtmWeights .adapt x lams SkA nfft tolc ∧
    mtMean .adapt (SkA.map (·.map ((c * conj c) * ·)))
        (pmtmWeights .adapt (x.map (c * ·)) lams (SkA.map (·.map ((c * conj c) * ·))) nfft tolc)
        nfft lams.length
      = (mtMean .adapt SkA (pmtmWeights .adapt x lams SkA nfft tolc) nfft lams.length).map
          ((c * conj c) * ·) :=
  mt_adapt_scale (mul_star_self_ne_zero hc) (reGt_abs2_mul_CRat hc) (reLe0_abs2_mul_CRat hc) rfl
    x lams SkA nfft tolc

example : (fun (K : Type) [Field K] [StarRing K] [ReOrd K] => (levinson : K → _)) CRat
    = @levinson CRat CRat.instAdd CRat.instSub CRat.instMul CRat.instDiv CRat.instNeg
        CRat.instOfNatOfNatNat CRat.instOfNatOfNatNat_1 CRat.instConj instReOrdCRat := rfl
example : (fun (K : Type) [Field K] [StarRing K] [ReOrd K] => (arburg : List K → _)) CRat
    = @arburg CRat CRat.instAdd CRat.instSub CRat.instMul CRat.instDiv CRat.instNeg
        CRat.instOfNatOfNatNat CRat.instOfNatOfNatNat_1 CRat.instNatCast CRat.instConj
        instReOrdCRat := rfl
example : (fun (K : Type) [Field K] [StarRing K] [ReOrd K] => (pmtmWeights : _ → List K → _)) CRat
    = @pmtmWeights CRat CRat.instAdd CRat.instSub CRat.instMul CRat.instDiv CRat.instNeg
        CRat.instOfNatOfNatNat CRat.instOfNatOfNatNat_1 CRat.instNatCast CRat.instConj
        instReOrdCRat := rfl

/-- **`daniell_periodogram_scale` for the executed model** (mode `Q` of the driver, commands `daniell` / `daniellpg`) -/
theorem daniell_periodogram_scale_CRat (tw x w : List CRat) (nfft P : ℕ) (isReal : Bool) (c : CRat) :
    daniellPeriodogram tw (x.map (c * ·)) w nfft P isReal
      = (daniellPeriodogram tw x w nfft P isReal).map ((c * conj c) * ·) :=
  daniell_periodogram_scale tw x w nfft P isReal c

end CRatInstantiation

end SpecVerif.C03
