import SpecVerif.Proofs.Lemmas.Sides
import SpecVerif.Proofs.Lemmas.CRatField
import SpecVerif.Generated.RangeSrc
/-
  C06 — conversions among 'onesided', 'twosided' and 'centerdc' are refinements of one abstract
  object, a two-sided spectrum `S : ℕ → K` of `n = NFFT` bins.

  `rep s n S` (in `Lemmas/Sides`) is the specification of what is stored for sides `s`:
    * `.two`    entry `k` is `S k`;
    * `.center` entry `a` is `S ((a - n/2) mod n)`;
    * `.one`    entry `k ≤ n/2` is `S k + S (n-k)`, except DC and (even `n`) Nyquist which are `S k`.
  Every conversion of the model maps `rep s n S` to `rep t n S`; length, frequency alignment, power
  preservation and path independence are consequences.  `SymmSpec n S` (`S k = S (n-k)`) is the spectrum
  of real data; it is required exactly where the code needs it (whenever side `.one` is involved).
  `n ≥ 1` has either parity.  Property theorems only.
-/
namespace SpecVerif.C06
open Finset SpecVerif

variable {K : Type} [Field K]

/-- **refinement, real data**: for a symmetric spectrum all nine conversions `s → t` of
`get_converted_psd` map the representation for `s` to the representation for `t`. -/
theorem convert_refines (h2 : (2 : K) ≠ 0) {n : ℕ} (hn : 1 ≤ n) {S : ℕ → K} (hS : SymmSpec n S)
    (s t : Side) : convert s t false n (rep s n S) = some (rep t n S) := by
  have hodd : (decide (n % 2 = 1 ∧ (repOne n S).length = (n + 1) / 2) = true) ↔ n % 2 = 1 := by
    rw [decide_eq_true_iff, repOne_length]
    omega
  cases s <;> cases t <;> simp only [rep] <;> simp only [convert, if_true, reduceCtorEq, if_false,
    Bool.false_eq_true, false_and, and_false]
  · rw [unfoldOne_repOne h2 hn hS _ hodd]
  · rw [unfoldOne_repOne h2 hn hS _ hodd, fftshift_repTwo]
  · rw [twosided2onesided_repTwo hn hS]
  · rw [fftshift_repTwo]
  · rw [ifftshift_repCenter, twosided2onesided_repTwo hn hS]
  · rw [ifftshift_repCenter]

/-- **refinement, any data** (complex included): between 'twosided' and 'centerdc' no symmetry is
needed and the `isComplex` flag is irrelevant. -/
theorem convert_refines_twosided (n : ℕ) (S : ℕ → K) (isComplex : Bool) (s t : Side)
    (hs : s ≠ .one) (ht : t ≠ .one) :
    convert s t isComplex n (rep s n S) = some (rep t n S) := by
  cases s <;> cases t <;> simp only [convert, rep, if_true, reduceCtorEq, if_false,
    and_false, ne_eq, not_true_eq_false] at hs ht ⊢
  · rw [fftshift_repTwo]
  · rw [ifftshift_repCenter]

/-- complex data cannot be converted to one-sided: the model reports the assertion failure. -/
theorem convert_complex_onesided (n : ℕ) (p : List K) (s : Side) (hs : s ≠ .one) :
    convert s .one true n p = none := by
  cases s <;> simp [convert] at hs ⊢

/-- **the four helper functions of `tools.py`** act on the representations as specified;
`onesided_2_twosided` only for an even NFFT (it assumes a Nyquist entry). -/
theorem helpers_refine (h2 : (2 : K) ≠ 0) {n : ℕ} (hn : 1 ≤ n) {S : ℕ → K} (hS : SymmSpec n S) :
    twosided2onesided (repTwo n S) = repOne n S
    ∧ twosided2centerdc (repTwo n S) = repCenter n S
    ∧ centerdc2twosided (repCenter n S) = repTwo n S
    ∧ (n % 2 = 0 → onesided2twosided (repOne n S) = repTwo n S) := by
  refine ⟨twosided2onesided_repTwo hn hS, fftshift_repTwo n S, ifftshift_repCenter n S, ?_⟩
  intro he
  exact unfoldOne_repOne h2 hn hS false (by simp; omega)

/-- the shifts need no symmetry and no field hypothesis: `fftshift`/`ifftshift` are mutually inverse
on every list. -/
theorem shifts_refine (n : ℕ) (S : ℕ → K) :
    fftshift (repTwo n S) = repCenter n S ∧ ifftshift (repCenter n S) = repTwo n S :=
  ⟨fftshift_repTwo n S, ifftshift_repCenter n S⟩

/-- **length**: the representation for sides `t` is as long as the frequency axis `Range(n).…(t)` -/
theorem length_eq_axis (t : Side) (n : ℕ) (S : ℕ → K) :
    (rep t n S).length = (rangeBins t n).length := by
  rw [rangeBins_length]
  cases t <;> simp [rep]

/-- **frequency alignment**: entry `i` holds the spectrum at the bin that the axis reports at index
`i`: `S` at that bin (mod `n`) for two-sided and centre-DC, `S` folded over `±bin` for one-sided. -/
theorem axis_aligned {n : ℕ} (hn : 1 ≤ n) (S : ℕ → K) (t : Side) (i : ℕ)
    (hi : i < (rangeBins t n).length) :
    nth (rep t n S) i = binValue t n S ((rangeBins t n)[i]) := by
  have hlen := rangeBins_length t n
  cases t
  · simp only [rep, binValue]
    rw [rangeBins_one_getElem]
    exact nth_repOne_eq_foldBin hn S (by simpa [hlen] using hi)
  · have hin : i < n := by simpa [hlen] using hi
    simp only [rep, repTwo, binValue]
    rw [rangeBins_two_getElem, binIdx_natCast hin, nth_vec, if_pos hin]
  · have hin : i < n := by simpa [hlen] using hi
    simp only [rep, repCenter, binValue]
    rw [rangeBins_center_getElem, binIdx_center hin, nth_vec, if_pos hin]

/-- the bins reported by the axes: `k` for one- and two-sided, `a - n/2` for centre-DC. -/
theorem axis_bins (n i : ℕ) :
    (∀ h : i < (rangeBins .one n).length, (rangeBins .one n)[i] = (i : Int))
    ∧ (∀ h : i < (rangeBins .two n).length, (rangeBins .two n)[i] = (i : Int))
    ∧ (∀ h : i < (rangeBins .center n).length,
        (rangeBins .center n)[i] = (i : Int) - ((n / 2 : ℕ) : Int)) :=
  ⟨rangeBins_one_getElem n i, rangeBins_two_getElem n i, rangeBins_center_getElem n i⟩

/-- **power**: every representation sums to the two-sided total `Σ_{k<n} S k` (folding needs no
symmetry for this). -/
theorem power_preserved {n : ℕ} (hn : 1 ≤ n) (S : ℕ → K) (t : Side) :
    (rep t n S).sum = ∑ k ∈ range n, S k := by
  cases t
  · exact repOne_sum hn S
  · exact vec_sum n S
  · exact repCenter_sum n S

/-- conversions preserve the total power. -/
theorem convert_power (h2 : (2 : K) ≠ 0) {n : ℕ} (hn : 1 ≤ n) {S : ℕ → K} (hS : SymmSpec n S)
    (s t : Side) :
    ∃ q, convert s t false n (rep s n S) = some q ∧ q.sum = (rep s n S).sum :=
  ⟨rep t n S, convert_refines h2 hn hS s t, by rw [power_preserved hn, power_preserved hn]⟩

/-- **path independence, real data**: any sequence `ts` of conversions (of any length) starting from
the representation for `s` succeeds and ends at the representation for the last side of the list. -/
theorem path_independent (h2 : (2 : K) ≠ 0) {n : ℕ} (hn : 1 ≤ n) {S : ℕ → K} (hS : SymmSpec n S)
    (ts : List Side) (s : Side) :
    convertPath false n s ts (rep s n S) = some (rep (ts.getLastD s) n S) := by
  induction ts generalizing s with
  | nil => rfl
  | cons t ts ih =>
    rw [convertPath, convert_refines h2 hn hS, Option.bind_some, ih, List.getLastD_cons]

/-- … hence any path gives the same PSD as the direct conversion to its final side. -/
theorem path_eq_direct (h2 : (2 : K) ≠ 0) {n : ℕ} (hn : 1 ≤ n) {S : ℕ → K} (hS : SymmSpec n S)
    (ts : List Side) (s : Side) :
    convertPath false n s ts (rep s n S) = convert s (ts.getLastD s) false n (rep s n S) := by
  rw [path_independent h2 hn hS, convert_refines h2 hn hS]

/-- **path independence, any data**: paths that never visit 'onesided' need no symmetry. -/
theorem path_independent_twosided (n : ℕ) (S : ℕ → K) (isComplex : Bool)
    (ts : List Side) (s : Side) (hs : s ≠ .one) (hts : ∀ t ∈ ts, t ≠ .one) :
    convertPath isComplex n s ts (rep s n S) = some (rep (ts.getLastD s) n S) := by
  induction ts generalizing s with
  | nil => rfl
  | cons t ts ih =>
    have ht : t ≠ .one := hts t (List.mem_cons_self ..)
    rw [convertPath, convert_refines_twosided n S isComplex s t hs ht, Option.bind_some,
      ih t ht (fun u hu => hts u (List.mem_cons_of_mem _ hu)), List.getLastD_cons]

/-- **round trip**: a path that returns to the original sides restores the stored values exactly. -/
theorem roundtrip (h2 : (2 : K) ≠ 0) {n : ℕ} (hn : 1 ≤ n) {S : ℕ → K} (hS : SymmSpec n S)
    (ts : List Side) (s : Side) (hback : ts.getLastD s = s) :
    convertPath false n s ts (rep s n S) = some (rep s n S) := by
  rw [path_independent h2 hn hS, hback]

/-- **every stored PSD is covered**: any list as long as the axis for `s` is the representation of
some spectrum (a symmetric one for one-sided data), so the theorems above speak about all stored
values, not about a special family. -/
theorem rep_complete (h2 : (2 : K) ≠ 0) (n : ℕ) (s : Side) (p : List K)
    (hp : p.length = (rangeBins s n).length) :
    ∃ S : ℕ → K, (s = .one → SymmSpec n S) ∧ rep s n S = p := by
  rw [rangeBins_length] at hp
  cases s
  · exact ⟨unfoldSpec n p, fun _ => unfoldSpec_symm n p, repOne_complete h2 p hp⟩
  · exact ⟨nth p, (fun h => by cases h), repTwo_complete p hp⟩
  · exact ⟨fun k => nth p ((k + n / 2) % n), (fun h => by cases h), repCenter_complete (n := n) p hp⟩

/-- **one-sided data, stated on the stored list**: any one-sided list `p` (length `n/2+1`) converts to
a two-sided list that carries `p k / 2` at both `+k` and `-k` (`= n - k`) for interior `k`, and `p k`
unsplit at DC and Nyquist. -/
theorem onesided_split (h2 : (2 : K) ≠ 0) {n : ℕ} (hn : 1 ≤ n) (p : List K)
    (hp : p.length = n / 2 + 1) :
    ∃ q, convert .one .two false n p = some q ∧ q.length = n ∧ nth q 0 = nth p 0
      ∧ (n % 2 = 0 → nth q (n / 2) = nth p (n / 2))
      ∧ ∀ k, 0 < k → 2 * k < n → nth q k = nth p k / 2 ∧ nth q (n - k) = nth p k / 2 := by
  have hc := convert_refines h2 hn (unfoldSpec_symm n p) .one .two
  simp only [rep, repOne_complete h2 p hp] at hc
  refine ⟨_, hc, by simp, ?_, ?_, ?_⟩
  · simp only [repTwo, nth_vec, unfoldSpec]
    rw [if_pos (by omega)]
    simp
  · intro he
    have h0 : n / 2 ≠ 0 := by omega
    have hlt : n / 2 < n := by omega
    simp [repTwo, unfoldSpec, hlt, h0, he]
  · intro k hk0 hk
    have hsym := unfoldSpec_symm n p k hk0 (by omega)
    have hkn : k < n := by omega
    have hkn' : n - k < n := by omega
    simp only [repTwo, nth_vec, hkn, hkn', if_true]
    rw [← hsym]
    have h0 : k ≠ 0 := by omega
    have hA : ¬ (n % 2 = 0 ∧ k = n / 2) := by omega
    have hL : k < n / 2 + 1 := by omega
    simp [unfoldSpec, h0, hA, hL]

/-- **path independence on stored lists, real data** (stored one-sided, the library's default for
real data): two conversion paths from the same stored PSD that end at the same sides give the same
list; it has the length of that axis and the same total. -/
theorem stored_path_independent (h2 : (2 : K) ≠ 0) {n : ℕ} (hn : 1 ≤ n) (p : List K)
    (hp : p.length = (rangeBins .one n).length) (ts ts' : List Side)
    (hlast : ts.getLastD .one = ts'.getLastD .one) :
    convertPath false n .one ts p = convertPath false n .one ts' p
    ∧ ∃ q, convertPath false n .one ts p = some q
        ∧ q.length = (rangeBins (ts.getLastD .one) n).length ∧ q.sum = p.sum := by
  obtain ⟨S, hS, rfl⟩ := rep_complete h2 n .one p hp
  have hS := hS rfl
  rw [path_independent h2 hn hS ts, path_independent h2 hn hS ts', hlast]
  exact ⟨rfl, _, rfl, length_eq_axis .., by rw [power_preserved hn, power_preserved hn]⟩

/-- **path independence on stored lists, any data** (stored two-sided or centre-DC, paths that stay
among those two): same statement, no symmetry and no hypothesis on `2`. -/
theorem stored_path_independent_twosided {n : ℕ} (hn : 1 ≤ n) (isComplex : Bool) (s : Side)
    (hs : s ≠ .one) (p : List K) (hp : p.length = (rangeBins s n).length) (ts ts' : List Side)
    (hts : ∀ t ∈ ts, t ≠ .one) (hts' : ∀ t ∈ ts', t ≠ .one)
    (hlast : ts.getLastD s = ts'.getLastD s) :
    convertPath isComplex n s ts p = convertPath isComplex n s ts' p
    ∧ ∃ q, convertPath isComplex n s ts p = some q
        ∧ q.length = (rangeBins (ts.getLastD s) n).length ∧ q.sum = p.sum := by
  obtain ⟨S, rfl⟩ : ∃ S : ℕ → K, rep s n S = p := by
    have hp' := hp
    rw [rangeBins_length] at hp'
    cases s
    · exact absurd rfl hs
    · exact ⟨_, repTwo_complete p hp'⟩
    · exact ⟨fun k => nth p ((k + n / 2) % n), repCenter_complete (n := n) p hp'⟩
  rw [path_independent_twosided n S isComplex ts s hs hts,
    path_independent_twosided n S isComplex ts' s hs hts', hlast]
  exact ⟨rfl, _, rfl, length_eq_axis .., by rw [power_preserved hn, power_preserved hn]⟩

/-! ### non-vacuity: the hypotheses have non-trivial models, and what the statements say there -/

/-- a symmetric, non-constant spectrum of `n = 4` bins over `ℚ` (where `2 ≠ 0`) -/
example : SymmSpec 4 (fun k => ([1, 2, 3, 2] : List ℚ).getD k 0) ∧ (2 : ℚ) ≠ 0 := by
  refine ⟨?_, by norm_num⟩
  intro k h0 h4
  obtain rfl | rfl | rfl : k = 1 ∨ k = 2 ∨ k = 3 := by omega
  all_goals simp

/-- its three representations -/
example : rep .one 4 (fun k => ([1, 2, 3, 2] : List ℚ).getD k 0) = [1, 4, 3]
    ∧ rep .two 4 (fun k => ([1, 2, 3, 2] : List ℚ).getD k 0) = [1, 2, 3, 2]
    ∧ rep .center 4 (fun k => ([1, 2, 3, 2] : List ℚ).getD k 0) = [3, 2, 1, 2] := by
  refine ⟨?_, ?_, ?_⟩
  · simp [rep, repOne, vec, List.range, List.range.loop]
    norm_num
  · simp [rep, repTwo, vec, List.range, List.range.loop]
  · simp [rep, repCenter, vec, List.range, List.range.loop]

/-- even NFFT: one-sided `[1,4,3]` → centre-DC (interior value split, Nyquist not) -/
example : convert .one .center false 4 ([1, 4, 3] : List ℚ) = some [3, 2, 1, 2] := by
  simp [convert, unfoldOne, fftshift, vec, nth, List.range, List.range.loop]
  norm_num

/-- odd NFFT: a three-step path returning to one-sided restores the stored values -/
example : convertPath false 5 .one [.center, .two, .one] ([1, 4, 6] : List ℚ) = some [1, 4, 6] := by
  simp [convertPath, convert, unfoldOne, fftshift, ifftshift, twosided2onesided, vec, nth,
    List.range, List.range.loop]
  norm_num

/-! ### instantiation at the executed scalar type `CRat`

`Lemmas/CRatField.lean` makes the Gaussian rationals of the executable model a `Field` / `StarRing` whose
operations ARE the model's hand-written instances.  The theorems below are the generic theorems of this
file specialised to `K := CRat` (by plain application — no rewriting): their statements elaborate to the
model functions applied to the model's own instances (`CRat.instAdd`, `CRat.instMul`, `CRat.instDiv`, …,
`CRat.instConj`), i.e. to the code that the differential test executes; `conj` is the model's conjugation.
The `example … := rfl` lines check that the `Field`-path elaboration used by the generic theorems,
instantiated at `CRat`, is that very function. -/
section CRatInstantiation

/-- **`stored_path_independent` for the executed model**: `2 ≠ 0` holds in `CRat` (characteristic zero),
so the hypothesis `h2` of the generic theorem disappears -/
theorem stored_path_independent_CRat {n : ℕ} (hn : 1 ≤ n) (p : List CRat)
    (hp : p.length = (rangeBins .one n).length) (ts ts' : List Side)
    (hlast : ts.getLastD .one = ts'.getLastD .one) :
    convertPath false n .one ts p = convertPath false n .one ts' p
    ∧ ∃ q, convertPath false n .one ts p = some q
        ∧ q.length = (rangeBins (ts.getLastD .one) n).length ∧ q.sum = p.sum :=
  stored_path_independent two_ne_zero hn p hp ts ts' hlast

example : (fun (K : Type) [Field K] => (convert : _ → _ → _ → _ → List K → _)) CRat
    = @convert CRat CRat.instMul CRat.instDiv CRat.instOfNatOfNatNat CRat.instNatCast := rfl
example : @convert CRat CRat.instMul CRat.instDiv CRat.instOfNatOfNatNat CRat.instNatCast
    = convert := rfl

end CRatInstantiation

/-! ## the frequency axes of the model ARE the library's source

`Src.onesidedBins`, `Src.twosidedBins`, `Src.centerdcBins` (`Generated/RangeSrc.lean`) are translated on every run from the
abstract syntax tree of `Range.onesided_gen` / `twosided_gen` / `centerdc_gen` (`harness/srcgen.py`; every generator yields
`<integer bin> * self.df`, the translation lists the bins).  The model's `rangeBins` — the axis every length / alignment theorem
above is about — equals that translation for every NFFT: for the axes the tie between model and code is this theorem, re-checked
by the kernel against what the source says now. -/

section SourceTie
set_option linter.unusedSimpArgs false

theorem pyRange_zero_nat (m : ℕ) : Src.pyRange 0 (m : ℤ) = (List.range m).map (fun (k : ℕ) => (k : ℤ)) := by
  simp [Src.pyRange]

theorem rangeBins_two_eq_source (n : ℕ) : rangeBins .two n = Src.twosidedBins n := by
  simp [rangeBins, Src.twosidedBins, Src.pyRange, List.map_map]

theorem rangeBins_center_eq_source (n : ℕ) : rangeBins .center n = Src.centerdcBins n := by
  simp [rangeBins, Src.centerdcBins, Src.pyRange, List.map_map]

theorem rangeBins_one_eq_source (n : ℕ) : rangeBins .one n = Src.onesidedBins n := by
  simp only [rangeBins, Src.onesidedBins]
  have h1 : ((n : ℤ) / 2 + 1) = ((n / 2 + 1 : ℕ) : ℤ) := by push_cast; rfl
  have h2 : (((n : ℤ) + 1) / 2) = (((n + 1) / 2 : ℕ) : ℤ) := by push_cast; rfl
  have hc : ((n : ℤ) % 2 = 0) ↔ (n % 2 = 0) := by omega
  rw [h1, h2, pyRange_zero_nat, pyRange_zero_nat]
  by_cases h : n % 2 = 0
  · simp [h, hc.mpr h, List.map_map]
  · have : ¬ ((n : ℤ) % 2 = 0) := fun hh => h (hc.mp hh)
    simp [h, this, List.map_map]

/-- all three at once -/
theorem rangeBins_eq_source (sd : Side) (n : ℕ) :
    rangeBins sd n = match sd with
      | .one => Src.onesidedBins n | .two => Src.twosidedBins n | .center => Src.centerdcBins n := by
  cases sd
  · exact rangeBins_one_eq_source n
  · exact rangeBins_two_eq_source n
  · exact rangeBins_center_eq_source n

/-- the translated source is not a degenerate term -/
example : Src.onesidedBins 6 = [0, 1, 2, 3] ∧ Src.onesidedBins 5 = [0, 1, 2] ∧ Src.centerdcBins 5 = [-2, -1, 0, 1, 2] := by
  decide

end SourceTie

end SpecVerif.C06
