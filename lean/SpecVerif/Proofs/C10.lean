import SpecVerif.Proofs.Lemmas.Levinson
import SpecVerif.Proofs.Lemmas.LevinsonPD
import SpecVerif.Proofs.Lemmas.Toeplitz
import SpecVerif.Proofs.Lemmas.SchurCohn
import Mathlib.Algebra.Star.Rat
import SpecVerif.Proofs.Lemmas.CRatField
import Mathlib.LinearAlgebra.Matrix.ConjTranspose
/-
  C10 — the Levinson recursion solves the Hermitian Toeplitz normal equations.

  Conventions of the model: `levRun r0 T k` is the state of `LEVINSON` after `k` stages, `T = r[1:]`
  (so `r_j = nth T (j-1)` for `j ≥ 1`) and `r_0 = r0` is real (`star r0 = r0`); `.A` are the
  coefficients `a_1..a_k` (no leading 1), `.P` the prediction error, `.ref` the reflection
  coefficients.  The Hermitian Toeplitz matrix has entries `R i j = r (i-j)` for `j ≤ i` and
  `star (r (j-i))` for `j > i`; it is written out in the statements.

  Property theorems only (helper lemmas live in `Proofs/Lemmas/Levinson.lean`).

  Stability (minimum phase) is now PROVED for every order, not only order 1: for a positive definite
  autocorrelation all roots of `z^p + a_1 z^{p-1} + … + a_p` lie strictly inside the unit circle
  (`levinson_stable`, via the Schur–Cohn theorem for the step-up recursion in
  `Proofs/Lemmas/SchurCohn.lean`, namespace `SpecVerif.SchurL`).
-/
namespace SpecVerif.C10
open Finset SpecVerif

variable {K : Type} [Field K] [StarRing K]

/-- after `k` stages there are `k` coefficients and `k` reflection coefficients -/
theorem levRun_lengths (r0 : K) (T : List K) (k : ℕ) :
    (levRun r0 T k).A.length = k ∧ (levRun r0 T k).ref.length = k :=
  ⟨levRun_A_length r0 T k, levRun_ref_length r0 T k⟩

/-- **normal equations**: if `r_0` is real and the errors of the stages `0..p-1` do not vanish, the
order-`p` output satisfies `T_p [1, a_1..a_p]ᵀ = [P, 0, …, 0]ᵀ`.  The sequence `r` and the polynomial
`α = [1, a]` are introduced through their defining equations.  (`_hp` is the wrapper's admissibility
condition; the algebra does not use it — beyond `len T` the sequence is read as zero-padded.) -/
theorem levinson_solves (r0 : K) (T : List K) (p : ℕ) (h0 : star r0 = r0) (_hp : p ≤ T.length)
    (hP : ∀ j, j < p → (levRun r0 T j).P ≠ 0)
    (r : ℕ → K) (hr0 : r 0 = r0) (hr : ∀ j, r (j + 1) = nth T j)
    (α : ℕ → K) (hα0 : α 0 = 1) (hα : ∀ j, α (j + 1) = nth (levRun r0 T p).A j) :
    ∀ i, i ≤ p →
      ∑ j ∈ range (p + 1), (if j ≤ i then r (i - j) else star (r (j - i))) * α j
        = if i = 0 then (levRun r0 T p).P else 0 := by
  have e1 : r = rseq r0 T := by
    funext j; rcases j with _ | j
    · exact hr0
    · exact hr j
  have e2 : α = alphaOf (levRun r0 T p).A := by
    funext j; rcases j with _ | j
    · exact hα0
    · exact hα j
  subst e1 e2
  exact levRun_LevEq r0 T h0 p hP

/-- non-vacuity of `levinson_solves`: `r = [2, 1, 1/2]` over `ℚ`, order 2 -/
example : star (2 : ℚ) = 2 ∧ 2 ≤ [(1 : ℚ), 1 / 2].length ∧
    ∀ j, j < 2 → (levRun (2 : ℚ) [1, 1 / 2] j).P ≠ 0 := by
  refine ⟨rfl, by simp, ?_⟩
  intro j hj
  have : j = 0 ∨ j = 1 := by omega
  rcases this with rfl | rfl
  · simp [levRun]
  · simp [levRun, levStep, sumR, nth, abs2]
    norm_num

/-- **error product**: `P_p = r_0 ∏_{i<p} (1 - k_i conj k_i)` with `k_i` the returned reflection
coefficients (no hypothesis: this is how the recursion updates `P`). -/
theorem levinson_error_product (r0 : K) (T : List K) (p : ℕ) :
    (levRun r0 T p).P
      = r0 * ∏ i ∈ range p,
          (1 - nth (levRun r0 T p).ref i * star (nth (levRun r0 T p).ref i)) := by
  rw [levRun_P_prod]
  congr 1
  apply Finset.prod_congr rfl
  intro i hi
  rw [nth_levRun_ref r0 T p i (mem_range.mp hi)]

/-- **nesting**: the reflection coefficients of the order-`q` solution are the first `q` of the
order-`p` ones. -/
theorem levinson_nested (r0 : K) (T : List K) (q p : ℕ) (h : q ≤ p) :
    (levRun r0 T q).ref = (levRun r0 T p).ref.take q :=
  levRun_ref_take r0 T q p h

/-- the last coefficient of each order is that order's reflection coefficient: `a_p[p] = k_p` -/
theorem levinson_last_coeff (r0 : K) (T : List K) (p : ℕ) :
    nth (levRun r0 T (p + 1)).A p = nth (levRun r0 T (p + 1)).ref p := by
  rw [levRun_A_last, nth_levRun_ref r0 T (p + 1) p (by omega)]

/-- the reflection coefficient of stage `m+1` is `-(r_{m+1} + Σ_{j<m} a_m[j] r_{m-j}) / P_m` -/
theorem levinson_reflection (r0 : K) (T : List K) (m : ℕ) :
    nth (levRun r0 T (m + 1)).ref m
      = -(nth T m + ∑ j ∈ range m, nth (levRun r0 T m).A j * nth T (m - j - 1))
          / (levRun r0 T m).P := by
  rw [nth_levRun_ref r0 T (m + 1) m (by omega)]
  unfold levK
  rw [← save_eq_levDelta r0, sumR_eq_sum]

/-- **order 1**: `a_1 = k_1 = -r_1 / r_0` and `P_1 = r_0 (1 - |k_1|²)`; the only root of
`z + a_1` is `-k_1`. -/
theorem levinson_order1 (r0 : K) (T : List K) :
    (levRun r0 T 1).A = [-(nth T 0) / r0] ∧ (levRun r0 T 1).ref = [-(nth T 0) / r0] ∧
    (levRun r0 T 1).P = r0 * (1 - (-(nth T 0) / r0) * star (-(nth T 0) / r0)) ∧
    ∀ z : K, z + nth (levRun r0 T 1).A 0 = 0 ↔ z = -nth (levRun r0 T 1).ref 0 := by
  have hA : (levRun r0 T 1).A = [-(nth T 0) / r0] := by
    simp [levRun, levStep, levup, vec, sumR, List.range_succ]
  have hr : (levRun r0 T 1).ref = [-(nth T 0) / r0] := by
    simp [levRun, levStep, sumR]
  refine ⟨hA, hr, ?_, ?_⟩
  · simp [levRun, levStep, sumR]
  · intro z
    rw [hA, hr]
    exact eq_neg_iff_add_eq_zero.symm

/-! ### the `LEVINSON` wrapper: when it raises -/

/-- the order is checked first -/
theorem levinson_assert [ReOrd K] (r0 : K) (T : List K) (order : ℕ) (allow : Bool)
    (ho : T.length < order) : levinson r0 T order allow = .error "assert" := by
  unfold levinson
  rw [if_pos ho]

/-- **raises**: for an admissible order, `ValueError` is raised iff singularity is not allowed and
some stage `j ∈ [1, order]` has error with real part `≤ 0`. -/
theorem levinson_raises [ReOrd K] (r0 : K) (T : List K) (order : ℕ) (allow : Bool)
    (ho : order ≤ T.length) :
    levinson r0 T order allow = .error "value" ↔
      allow = false ∧ ∃ j, 1 ≤ j ∧ j ≤ order ∧ reLe0 (levRun r0 T j).P = true := by
  unfold levinson
  rw [if_neg (by omega)]
  rw [← any_range_succ_iff (fun j => reLe0 (levRun r0 T j).P) order]
  cases allow
  · by_cases h : (List.range order).any (fun j => reLe0 (levRun r0 T (j + 1)).P) = true
    · simp [h]
    · simp [h]
  · simp

/-- **returns**: for an admissible order the result is `ok s` iff `s` is the state after `order`
stages and either singularity is allowed or every stage error has real part `> 0`. -/
theorem levinson_ok [ReOrd K] (r0 : K) (T : List K) (order : ℕ) (allow : Bool)
    (ho : order ≤ T.length) (s : LevState K) :
    levinson r0 T order allow = .ok s ↔
      s = levRun r0 T order ∧
        (allow = true ∨ ∀ j, 1 ≤ j → j ≤ order → reLe0 (levRun r0 T j).P = false) := by
  unfold levinson
  rw [if_neg (by omega)]
  rw [← any_range_succ_false_iff (fun j => reLe0 (levRun r0 T j).P) order]
  cases allow
  · by_cases h : (List.range order).any (fun j => reLe0 (levRun r0 T (j + 1)).P) = true
    · simp [h]
    · have h' : (List.range order).any (fun j => reLe0 (levRun r0 T (j + 1)).P) = false := by
        simpa using h
      simp only [h', Bool.not_false, Bool.and_false, Bool.false_eq_true, if_false,
        Except.ok.injEq, or_true, and_true]
      exact eq_comm
  · simp only [Bool.not_true, Bool.false_and, Bool.false_eq_true, if_false, Except.ok.injEq,
      true_or, and_true]
    exact eq_comm

/-- with `allow_singularity=True` no `ValueError` is ever raised -/
theorem levinson_allow [ReOrd K] (r0 : K) (T : List K) (order : ℕ) :
    levinson r0 T order true ≠ .error "value" := by
  unfold levinson
  by_cases ho : order > T.length
  · rw [if_pos ho]; intro h; injection h with h; exact absurd h (by decide)
  · rw [if_neg ho]
    simp only [Bool.not_true, Bool.false_and, Bool.false_eq_true, if_false]
    intro h; cases h

/-! ### the Hermitian Toeplitz solver `HERMTOEP` -/

/-- the Levinson part of `HERMTOEP` is `LEVINSON`: same coefficients and errors at every stage -/
theorem hermtoep_levinson (T0 : K) (T Z : List K) (k : ℕ) :
    (hermRun T0 T Z k).A = (levRun T0 T k).A ∧ (hermRun T0 T Z k).P = (levRun T0 T k).P :=
  hermRun_A_P T0 T Z k

/-- **`HERMTOEP` solves the system**: if `T0` is real and the stage errors `P_0 = T0, …, P_M` do not
vanish, the vector after `M` stages has `M+1` entries and satisfies `Σ_j R i j x_j = Z_i` for all
rows `i ≤ M` of the Hermitian Toeplitz matrix with first column `[T0, T…]`. -/
theorem hermtoep_solves (T0 : K) (T Z : List K) (M : ℕ) (h0 : star T0 = T0)
    (_hM : M ≤ T.length) (_hZ : M + 1 ≤ Z.length)
    (hP : ∀ j, j ≤ M → (hermRun T0 T Z j).P ≠ 0)
    (r : ℕ → K) (hr0 : r 0 = T0) (hr : ∀ j, r (j + 1) = nth T j) :
    (hermRun T0 T Z M).X.length = M + 1 ∧
    ∀ i, i ≤ M →
      ∑ j ∈ range (M + 1),
          (if j ≤ i then r (i - j) else star (r (j - i))) * nth (hermRun T0 T Z M).X j
        = nth Z i := by
  have e1 : r = rseq T0 T := by
    funext j; rcases j with _ | j
    · exact hr0
    · exact hr j
  subst e1
  refine ⟨hermRun_X_length _ T Z M, ?_⟩
  exact hermRun_solves _ T Z h0 M (fun j hj => by rw [← (hermRun_A_P _ T Z j).2]; exact hP j hj)

/-- non-vacuity of `hermtoep_solves`: `T0 = 2`, `T = [1]`, `Z = [1, 2]` over `ℚ` -/
example : star (2 : ℚ) = 2 ∧ ∀ j, j ≤ 1 → (hermRun (2 : ℚ) [1] [1, 2] j).P ≠ 0 := by
  refine ⟨rfl, ?_⟩
  intro j hj
  have : j = 0 ∨ j = 1 := by omega
  rcases this with rfl | rfl
  · simp [hermRun]
  · simp [hermRun, hermStep, sumR, nth, abs2]
    norm_num

/-- the wrapper returns `ok x` iff `T` is non-empty, no stage `1..M` has error with real part `≤ 0`,
and `x` is the vector after `M = len(T)` stages. -/
theorem hermtoep_ok [ReOrd K] (T0 : K) (T Z x : List K) :
    hermtoep T0 T Z = .ok x ↔
      T.length ≠ 0 ∧ (∀ j, 1 ≤ j → j ≤ T.length → reLe0 (hermRun T0 T Z j).P = false) ∧
        x = (hermRun T0 T Z T.length).X := by
  unfold hermtoep
  rw [← any_range_succ_false_iff (fun j => reLe0 (hermRun T0 T Z j).P) T.length]
  by_cases hM : T.length = 0
  · simp [hM]
  · by_cases h : (List.range T.length).any (fun j => reLe0 (hermRun T0 T Z (j + 1)).P) = true
    · simp [hM, h]
    · have h' : (List.range T.length).any (fun j => reLe0 (hermRun T0 T Z (j + 1)).P) = false := by
        simpa using h
      simp only [hM, h', if_false, Bool.false_eq_true, Except.ok.injEq, ne_eq, not_false_eq_true,
        true_and]
      exact eq_comm

/-- **end to end**: whenever `HERMTOEP` returns `x` (real non-zero `T0`, right-hand side of length
`M+1`, and a guard `reLe0` that rejects `0`), `x` has `M+1` entries and `T x = Z`. -/
theorem hermtoep_correct [ReOrd K] (hre : ∀ x : K, reLe0 x = false → x ≠ 0)
    (T0 : K) (T Z x : List K) (h0 : star T0 = T0) (hT0 : T0 ≠ 0) (hZ : Z.length = T.length + 1)
    (hx : hermtoep T0 T Z = .ok x)
    (r : ℕ → K) (hr0 : r 0 = T0) (hr : ∀ j, r (j + 1) = nth T j) :
    x.length = T.length + 1 ∧
    ∀ i, i ≤ T.length →
      ∑ j ∈ range (T.length + 1), (if j ≤ i then r (i - j) else star (r (j - i))) * nth x j
        = nth Z i := by
  obtain ⟨_, hg, rfl⟩ := (hermtoep_ok T0 T Z x).mp hx
  apply hermtoep_solves T0 T Z T.length h0 (Nat.le_refl _) (by omega) _ r hr0 hr
  intro j hj
  rcases Nat.eq_zero_or_pos j with rfl | hpos
  · exact hT0
  · exact hre _ (hg j hpos hj)

/-! ### the general Toeplitz solver `TOEPLITZ` -/

/-- **`TOEPLITZ` solves the system**: if the stage quantities `P_0 = T0, …, P_M` do not vanish, the
vector after `M` stages has `M+1` entries and satisfies `Σ_j G i j x_j = Z_i` for all rows `i ≤ M` of
the Toeplitz matrix with first column `c = [T0, TC…]` and first row `ρ = [T0, TR…]`
(`G i j = c (i-j)` for `j ≤ i`, `ρ (j-i)` for `j > i`).  No symmetry is assumed. -/
theorem toeplitz_solves (T0 : K) (TC TR Z : List K) (M : ℕ)
    (_hC : M ≤ TC.length) (_hR : M ≤ TR.length) (_hZ : M + 1 ≤ Z.length)
    (hP : ∀ j, j ≤ M → (toepRun T0 TC TR Z j).P ≠ 0)
    (c : ℕ → K) (hc0 : c 0 = T0) (hc : ∀ j, c (j + 1) = nth TC j)
    (ρ : ℕ → K) (hρ0 : ρ 0 = T0) (hρ : ∀ j, ρ (j + 1) = nth TR j) :
    (toepRun T0 TC TR Z M).X.length = M + 1 ∧
    ∀ i, i ≤ M →
      ∑ j ∈ range (M + 1),
          (if j ≤ i then c (i - j) else ρ (j - i)) * nth (toepRun T0 TC TR Z M).X j
        = nth Z i := by
  have e1 : c = rseq T0 TC := by
    funext j; rcases j with _ | j
    · exact hc0
    · exact hc j
  have e2 : ρ = rseq T0 TR := by
    funext j; rcases j with _ | j
    · exact hρ0
    · exact hρ j
  subst e1 e2
  exact ⟨toepRun_X_length _ TC TR Z M, toepRun_solves _ TC TR Z M hP⟩

/-- non-vacuity of `toeplitz_solves`: `T0 = 2`, `TC = [1]`, `TR = [3]`, `Z = [1, 2]` over `ℚ`
(a non-symmetric matrix) -/
example : ∀ j, j ≤ 1 → (toepRun (2 : ℚ) [1] [3] [1, 2] j).P ≠ 0 := by
  intro j hj
  have : j = 0 ∨ j = 1 := by omega
  rcases this with rfl | rfl
  · simp [toepRun]
  · simp [toepRun, toepStep, sumR, nth]
    norm_num

omit [StarRing K] in
/-- the wrapper returns `ok x` iff the sizes are admissible, neither `T0` nor a stage variable `P_1..P_M` tests zero
(a general Toeplitz system need not be positive definite: the code only rejects an exactly singular stage), and `x`
is the vector after `M = len(TC)` stages. -/
theorem toeplitz_ok [IsZero K] (T0 : K) (TC TR Z x : List K) :
    toeplitz T0 TC TR Z = .ok x ↔
      TC.length ≠ 0 ∧ TR.length = TC.length ∧ isZero T0 = false ∧
        (∀ j, 1 ≤ j → j ≤ TC.length → isZero (toepRun T0 TC TR Z j).P = false) ∧
        x = (toepRun T0 TC TR Z TC.length).X := by
  unfold toeplitz
  rw [← any_range_succ_false_iff (fun j => isZero (toepRun T0 TC TR Z j).P) TC.length]
  by_cases hM : TC.length = 0
  · simp [hM]
  · by_cases hR : TR.length = TC.length
    · by_cases h0 : isZero T0 = true
      · simp [hM, hR, h0]
      · have h0' : isZero T0 = false := by simpa using h0
        by_cases h : (List.range TC.length).any
            (fun j => isZero (toepRun T0 TC TR Z (j + 1)).P) = true
        · simp [hM, hR, h0', h]
        · have h' : (List.range TC.length).any
              (fun j => isZero (toepRun T0 TC TR Z (j + 1)).P) = false := by simpa using h
          simp only [hM, hR, h0', h', decide_false, Bool.or_self, if_false,
            ne_eq, not_true_eq_false, Bool.false_eq_true, Except.ok.injEq, not_false_eq_true,
            true_and]
          exact eq_comm
    · simp [hM, hR]

/-- **end to end**: whenever `TOEPLITZ` returns `x` (right-hand side of length `M+1`, a zero test `isZero` that
accepts `0`), `x` has `M+1` entries and `G x = Z` - for ANY Toeplitz matrix whose stage variables do not vanish,
positive definite or not. -/
theorem toeplitz_correct [IsZero K] (hz : ∀ x : K, isZero x = false → x ≠ 0)
    (T0 : K) (TC TR Z x : List K) (hZ : Z.length = TC.length + 1)
    (hx : toeplitz T0 TC TR Z = .ok x)
    (c : ℕ → K) (hc0 : c 0 = T0) (hc : ∀ j, c (j + 1) = nth TC j)
    (ρ : ℕ → K) (hρ0 : ρ 0 = T0) (hρ : ∀ j, ρ (j + 1) = nth TR j) :
    x.length = TC.length + 1 ∧
    ∀ i, i ≤ TC.length →
      ∑ j ∈ range (TC.length + 1), (if j ≤ i then c (i - j) else ρ (j - i)) * nth x j
        = nth Z i := by
  obtain ⟨_, hRl, hT0, hg, rfl⟩ := (toeplitz_ok T0 TC TR Z x).mp hx
  apply toeplitz_solves T0 TC TR Z TC.length (Nat.le_refl _) (by omega) (by omega) _
    c hc0 hc ρ hρ0 hρ
  intro j hj
  rcases Nat.eq_zero_or_pos j with rfl | hpos
  · exact hz _ hT0
  · exact hz _ (hg j hpos hj)

/-! ### positive definite autocorrelations (`ℝ` or `ℂ`) -/

section PD
variable {F : Type} [RCLike F]

/-- **positive definite ⇒ no breakdown**: if the leading `(p+1)×(p+1)` Hermitian Toeplitz form of `r`
is positive definite, every stage error `P_0..P_p` is real and `> 0` and every reflection coefficient
has modulus `< 1`. -/
theorem levinson_pd (r0 : F) (T : List F) (p : ℕ) (h0 : star r0 = r0) (_hp : p ≤ T.length)
    (r : ℕ → F) (hr0 : r 0 = r0) (hr : ∀ j, r (j + 1) = nth T j)
    (hpd : ∀ v : ℕ → F, (∃ i, i ≤ p ∧ v i ≠ 0) →
      0 < RCLike.re (∑ i ∈ range (p + 1), ∑ j ∈ range (p + 1),
        star (v i) * (if j ≤ i then r (i - j) else star (r (j - i))) * v j)) :
    (∀ m, m ≤ p → star (levRun r0 T m).P = (levRun r0 T m).P ∧ 0 < RCLike.re (levRun r0 T m).P) ∧
    (∀ i, i < p → ‖nth (levRun r0 T p).ref i‖ < 1) := by
  have e1 : r = rseq r0 T := by
    funext j; rcases j with _ | j
    · exact hr0
    · exact hr j
  subst e1
  have hpos := levRun_P_pos_of_PD r0 T h0 p hpd
  refine ⟨fun m hm => ⟨levRun_P_star r0 T h0 m, hpos m hm⟩, ?_⟩
  intro i hi
  rw [nth_levRun_ref r0 T p i hi]
  exact levK_norm_lt_one_of_pos r0 T i (hpos i (by omega)) (hpos (i + 1) (by omega))

/-- non-vacuity of the positive-definiteness hypothesis: `r = [2, 1]` over `ℝ`, `p = 1` -/
example : ∀ v : ℕ → ℝ, (∃ i, i ≤ 1 ∧ v i ≠ 0) →
    0 < RCLike.re (∑ i ∈ range 2, ∑ j ∈ range 2,
      star (v i) * (if j ≤ i then rseq (2 : ℝ) [1] (i - j) else star (rseq 2 [1] (j - i))) * v j) := by
  rintro v ⟨i, hi, hv⟩
  have h : v 0 ≠ 0 ∨ v 1 ≠ 0 := by
    have : i = 0 ∨ i = 1 := by omega
    rcases this with rfl | rfl
    · exact Or.inl hv
    · exact Or.inr hv
  simp [Finset.sum_range_succ, rseq, nth]
  rcases h with h | h
  · have := pow_pos (abs_pos.mpr h) 2; rw [sq_abs] at this
    nlinarith [sq_nonneg (v 0 + v 1), sq_nonneg (v 1)]
  · have := pow_pos (abs_pos.mpr h) 2; rw [sq_abs] at this
    nlinarith [sq_nonneg (v 0 + v 1), sq_nonneg (v 0)]

/-- positive stage errors alone already force `|k_i| < 1` -/
theorem levinson_refl_lt_one_of_pos (r0 : F) (T : List F) (p : ℕ)
    (hpos : ∀ m, m ≤ p → 0 < RCLike.re (levRun r0 T m).P) :
    ∀ i, i < p → ‖nth (levRun r0 T p).ref i‖ < 1 := by
  intro i hi
  rw [nth_levRun_ref r0 T p i hi]
  exact levK_norm_lt_one_of_pos r0 T i (hpos i (by omega)) (hpos (i + 1) (by omega))

/-- for a positive definite `r` the wrapper does not raise, whatever `allow_singularity` is
(`reLe0` being the test `re x ≤ 0`). -/
theorem levinson_pd_ok [ReOrd F] (hre : ∀ x : F, reLe0 x = true ↔ RCLike.re x ≤ 0)
    (r0 : F) (T : List F) (p : ℕ) (allow : Bool) (h0 : star r0 = r0) (hp : p ≤ T.length)
    (r : ℕ → F) (hr0 : r 0 = r0) (hr : ∀ j, r (j + 1) = nth T j)
    (hpd : ∀ v : ℕ → F, (∃ i, i ≤ p ∧ v i ≠ 0) →
      0 < RCLike.re (∑ i ∈ range (p + 1), ∑ j ∈ range (p + 1),
        star (v i) * (if j ≤ i then r (i - j) else star (r (j - i))) * v j)) :
    levinson r0 T p allow = .ok (levRun r0 T p) := by
  rw [levinson_ok r0 T p allow hp]
  refine ⟨rfl, Or.inr ?_⟩
  intro j _ hj
  have := ((levinson_pd r0 T p h0 hp r hr0 hr hpd).1 j hj).2
  cases hb : reLe0 (levRun r0 T j).P
  · rfl
  · have := (hre _).mp hb
    linarith

/-- **order-1 stability**: for a positive definite `[[r0, conj r1], [r1, r0]]` the root of the
prediction polynomial `z + a_1` lies strictly inside the unit circle. -/
theorem levinson_stable_order1 (r0 : F) (T : List F) (h0 : star r0 = r0) (hT : 1 ≤ T.length)
    (r : ℕ → F) (hr0 : r 0 = r0) (hr : ∀ j, r (j + 1) = nth T j)
    (hpd : ∀ v : ℕ → F, (∃ i, i ≤ 1 ∧ v i ≠ 0) →
      0 < RCLike.re (∑ i ∈ range 2, ∑ j ∈ range 2,
        star (v i) * (if j ≤ i then r (i - j) else star (r (j - i))) * v j))
    (z : F) (hz : z + nth (levRun r0 T 1).A 0 = 0) : ‖z‖ < 1 := by
  have hk := (levinson_pd r0 T 1 h0 hT r hr0 hr hpd).2 0 (by omega)
  rw [((levinson_order1 r0 T).2.2.2 z).mp hz, norm_neg]
  exact hk

end PD

/-! ### stability for every order (Schur–Cohn) -/

section Stability
variable {F : Type} [RCLike F]

/-- **stability, every order**: under the hypotheses of `levinson_pd` (positive definite leading
`(p+1)×(p+1)` Hermitian Toeplitz block) every root `z` of the returned prediction polynomial
`A(z) = z^p + a_1 z^{p-1} + … + a_p` (`[1, a_1..a_p]`, highest power first, is what is handed to
`numpy.roots`; this is `SchurL.polyA (levRun r0 T p).A z`) lies strictly inside the unit circle. -/
theorem levinson_stable (r0 : F) (T : List F) (p : ℕ) (h0 : star r0 = r0) (hp : p ≤ T.length)
    (r : ℕ → F) (hr0 : r 0 = r0) (hr : ∀ j, r (j + 1) = nth T j)
    (hpd : ∀ v : ℕ → F, (∃ i, i ≤ p ∧ v i ≠ 0) →
      0 < RCLike.re (∑ i ∈ range (p + 1), ∑ j ∈ range (p + 1),
        star (v i) * (if j ≤ i then r (i - j) else star (r (j - i))) * v j))
    (z : F) (hz : z ^ p + ∑ j ∈ range p, nth (levRun r0 T p).A j * z ^ (p - 1 - j) = 0) :
    ‖z‖ < 1 :=
  SchurL.levRun_root_lt_one r0 T p (levinson_pd r0 T p h0 hp r hr0 hr hpd).2 z hz

/-- the same with the helper definition: `SchurL.polyA a z = z^m + Σ_{j<m} a_j z^{m-1-j}`, `m` the
length of `a` — no zero on or outside the unit circle -/
theorem levinson_stable_polyA (r0 : F) (T : List F) (p : ℕ) (h0 : star r0 = r0) (hp : p ≤ T.length)
    (r : ℕ → F) (hr0 : r 0 = r0) (hr : ∀ j, r (j + 1) = nth T j)
    (hpd : ∀ v : ℕ → F, (∃ i, i ≤ p ∧ v i ≠ 0) →
      0 < RCLike.re (∑ i ∈ range (p + 1), ∑ j ∈ range (p + 1),
        star (v i) * (if j ≤ i then r (i - j) else star (r (j - i))) * v j))
    (z : F) (hz : 1 ≤ ‖z‖) : SchurL.polyA (levRun r0 T p).A z ≠ 0 := by
  intro h
  rw [SchurL.polyA_eq _ p (levRun_A_length r0 T p)] at h
  exact absurd (levinson_stable r0 T p h0 hp r hr0 hr hpd z h) (not_lt.mpr hz)

/-- **positive stage errors alone give stability** (what `LEVINSON` checks when
`allow_singularity=False`): if `re P_m > 0` for all `m ≤ p`, all roots are strictly inside the unit
circle. -/
theorem levinson_stable_of_pos (r0 : F) (T : List F) (p : ℕ)
    (hpos : ∀ m, m ≤ p → 0 < RCLike.re (levRun r0 T m).P)
    (z : F) (hz : z ^ p + ∑ j ∈ range p, nth (levRun r0 T p).A j * z ^ (p - 1 - j) = 0) :
    ‖z‖ < 1 :=
  SchurL.levRun_root_lt_one r0 T p (levinson_refl_lt_one_of_pos r0 T p hpos) z hz

/-- **minimum phase on the frequency grid**: under the same hypotheses the polynomial
`1 + a_1 w + … + a_p w^p` evaluated by the PSD code has no zero in the closed unit disc, in particular
none on the unit circle `|w| = 1` — the AR spectrum `P / |A(e^{-iω})|²` has no pole. -/
theorem levinson_no_unit_zeros (r0 : F) (T : List F) (p : ℕ) (h0 : star r0 = r0) (hp : p ≤ T.length)
    (r : ℕ → F) (hr0 : r 0 = r0) (hr : ∀ j, r (j + 1) = nth T j)
    (hpd : ∀ v : ℕ → F, (∃ i, i ≤ p ∧ v i ≠ 0) →
      0 < RCLike.re (∑ i ∈ range (p + 1), ∑ j ∈ range (p + 1),
        star (v i) * (if j ≤ i then r (i - j) else star (r (j - i))) * v j))
    (w : F) (hw : ‖w‖ ≤ 1) :
    1 + ∑ j ∈ range p, nth (levRun r0 T p).A j * w ^ (j + 1) ≠ 0 :=
  SchurL.levRun_rev_ne_zero r0 T p (levinson_pd r0 T p h0 hp r hr0 hr hpd).2 w hw

/-- non-vacuity (order 2, real) of `levinson_stable_of_pos`: for `r = [2, 1, 1/5]` the stage errors
are `2, 3/2, 36/25 > 0` (reflection coefficients `-1/2, 1/5`). -/
example : ∀ m, m ≤ 2 → 0 < RCLike.re (levRun (2 : ℝ) [1, 1 / 5] m).P := by
  intro m hm
  have : m = 0 ∨ m = 1 ∨ m = 2 := by omega
  rcases this with rfl | rfl | rfl
  · simp [levRun]
  · simp [levRun, levStep, sumR, nth, abs2]
    norm_num
  · simp [levRun, levStep, levup, vec, sumR, nth, abs2, List.range_succ]
    norm_num

end Stability

/-! ### instantiation at the executed scalar type `CRat`

`Lemmas/CRatField.lean` makes the Gaussian rationals of the executable model a `Field` / `StarRing` whose
operations ARE the model's hand-written instances.  The theorems below are the generic theorems of this
file specialised to `K := CRat` (by plain application — no rewriting): their statements elaborate to the
model functions applied to the model's own instances (`CRat.instAdd`, `CRat.instMul`, `CRat.instDiv`, …,
`CRat.instConj`), i.e. to the code that the differential test executes; `conj` is the model's conjugation.
The `example … := rfl` lines check that the `Field`-path elaboration used by the generic theorems,
instantiated at `CRat`, is that very function. -/
section CRatInstantiation

/-- **`levinson_solves` for the executed model**: the order-`p` output of the recursion run on
Gaussian rationals satisfies the normal equations -/
theorem levinson_solves_CRat (r0 : CRat) (T : List CRat) (p : ℕ) (h0 : conj r0 = r0)
    (hp : p ≤ T.length) (hP : ∀ j, j < p → (levRun r0 T j).P ≠ 0)
    (r : ℕ → CRat) (hr0 : r 0 = r0) (hr : ∀ j, r (j + 1) = nth T j)
    (α : ℕ → CRat) (hα0 : α 0 = 1) (hα : ∀ j, α (j + 1) = nth (levRun r0 T p).A j) :
    ∀ i, i ≤ p →
      ∑ j ∈ range (p + 1), (if j ≤ i then r (i - j) else conj (r (j - i))) * α j
        = if i = 0 then (levRun r0 T p).P else 0 :=
  levinson_solves r0 T p h0 hp hP r hr0 hr α hα0 hα

/-- **`levinson_error_product` for the executed model** -/
theorem levinson_error_product_CRat (r0 : CRat) (T : List CRat) (p : ℕ) :
    (levRun r0 T p).P
      = r0 * ∏ i ∈ range p, (1 - nth (levRun r0 T p).ref i * conj (nth (levRun r0 T p).ref i)) :=
  levinson_error_product r0 T p

example : (fun (K : Type) [Field K] [StarRing K] => (levRun : K → _)) CRat
    = @levRun CRat CRat.instAdd CRat.instSub CRat.instMul CRat.instDiv CRat.instNeg
        CRat.instOfNatOfNatNat CRat.instOfNatOfNatNat_1 CRat.instConj := rfl
example : @levRun CRat CRat.instAdd CRat.instSub CRat.instMul CRat.instDiv CRat.instNeg
    CRat.instOfNatOfNatNat CRat.instOfNatOfNatNat_1 CRat.instConj = levRun := rfl

end CRatInstantiation

/-! ## `CHOLESKY`: the glue around the LAPACK kernels

`CHOLESKY(A, B)` is three library calls: a factorisation `A = L·Lᴴ` (`cholesky`), `L·y = B` and `Lᴴ·x = y` (two triangular solves,
or `cho_solve`).  The kernels are parameters of the model (their contracts are the three hypotheses); what the function adds is the
ORDER in which they are chained and WHICH factor is conjugate-transposed — and that composition solves the system, for any number of
right-hand sides, over any field with involution. -/

section Cholesky
open Matrix

theorem cholesky_glue {n m : Type} [Fintype n] [Fintype m] {F : Type} [Field F] [StarRing F]
    (A L : Matrix n n F) (B X Y : Matrix n m F)
    (hfac : L * Lᴴ = A) (hfwd : L * Y = B) (hbwd : Lᴴ * X = Y) : A * X = B := by
  rw [← hfac, Matrix.mul_assoc, hbwd, hfwd]

/-- chaining the two solves with the factors the other way round solves the system of `Lᴴ·L`, not of `A = L·Lᴴ` -/
theorem cholesky_glue_wrong_order {n m : Type} [Fintype n] [Fintype m] {F : Type} [Field F] [StarRing F]
    (L : Matrix n n F) (B X Y : Matrix n m F) (hfwd : Lᴴ * Y = B) (hbwd : L * X = Y) : (Lᴴ * L) * X = B := by
  rw [Matrix.mul_assoc, hbwd, hfwd]

/-- the contracts are satisfiable: `A = [[4, 2], [2, 2]]`, `L = [[2, 0], [1, 1]]`, `B = [2, 0]ᵀ`, `y = [1, -1]ᵀ`, `x = [1, -1]ᵀ` -/
example : (!![2, 0; 1, 1] : Matrix (Fin 2) (Fin 2) ℚ) * (!![2, 0; 1, 1] : Matrix (Fin 2) (Fin 2) ℚ)ᴴ = !![4, 2; 2, 2] ∧
    (!![2, 0; 1, 1] : Matrix (Fin 2) (Fin 2) ℚ) * (!![1; -1] : Matrix (Fin 2) (Fin 1) ℚ) = !![2; 0] ∧
    (!![2, 0; 1, 1] : Matrix (Fin 2) (Fin 2) ℚ)ᴴ * (!![1; -1] : Matrix (Fin 2) (Fin 1) ℚ) = !![1; -1] := by
  refine ⟨?_, ?_, ?_⟩ <;> ext i j <;> fin_cases i <;> fin_cases j <;>
    simp [Matrix.mul_apply, Fin.sum_univ_two] <;> norm_num

end Cholesky

end SpecVerif.C10
