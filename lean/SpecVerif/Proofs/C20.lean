import SpecVerif.Proofs.Lemmas.Window
import SpecVerif.Proofs.Lemmas.Kaiser
import SpecVerif.Generated.Registry
/-
  C20 — window generators: length, symmetry, maximum, centre sample, ENBW ≥ 1, and the factory tables.

  Property theorems only (helper lemmas live in `Proofs/Lemmas/Window.lean`, namespace `SpecVerif.WinL`, and
  `Proofs/Lemmas/Kaiser.lean`, namespace `SpecVerif.KaiserL`).
  All theorems are about the model at `R := ℝ` (instance `instRealFnReal`).

  Kaiser: maximum `≤ 1`, positivity and centre `= 1` are proved for every real `beta` (the model's `I₀` is the
  61-term partial sum `Σ_{k ≤ 60} (x²/4)^k/(k!)²`, which is `≥ 1`, even and monotone in `|x|`).
  Taylor: the centre sample is `1` whenever the normalising constant `W((N-1)/2)` is non-zero; the clause
  "maximum ≤ 1" for Taylor (and everything about `chebwin`, a parameter of the model) is not proved here.
-/
namespace SpecVerif.C20
open Finset SpecVerif SpecVerif.WinL SpecVerif.KaiserL

/-! ### ENBW ≥ 1 for every list with non-zero sum (Cauchy–Schwarz) -/

/-- `enbw w = N Σw² / (Σw)² ≥ 1` for every real list whose sum is not zero — every window at once. -/
theorem enbw_ge_one (w : List ℝ) (hs : (∑ i ∈ range w.length, nth w i) ≠ 0) : 1 ≤ enbw w := by
  rw [enbw_real]
  have hpos : 0 < (∑ i ∈ range w.length, nth w i) ^ 2 := by positivity
  rw [le_div_iff₀ hpos, one_mul]
  have := sq_sum_le_card_mul_sum_sq (s := range w.length) (f := fun i => nth w i)
  simpa using this

example : (∑ i ∈ range [1, 2, (3 : ℝ)].length, nth [1, 2, (3 : ℝ)] i) ≠ 0 := by
  simp [Finset.sum_range_succ, nth]; norm_num

/-! ### lengths -/

/-- every generator returns exactly `N` samples (any `N`, any shape parameters) -/
theorem length_eq (N : ℕ) :
    (wRectangle (R := ℝ) N).length = N ∧ (wHamming (R := ℝ) N).length = N ∧ (wHann (R := ℝ) N).length = N ∧
    (wBartlett (R := ℝ) N).length = N ∧ (∀ a : ℝ, (wBlackman N a).length = N) ∧
    (wNuttall (R := ℝ) N).length = N ∧ (wBlackmanNuttall (R := ℝ) N).length = N ∧
    (wBlackmanHarris (R := ℝ) N).length = N ∧ (∀ p, (wFlattop (R := ℝ) N p).length = N) ∧
    (wBartlettHann (R := ℝ) N).length = N ∧ (wCosine (R := ℝ) N).length = N ∧
    (wLanczos (R := ℝ) N).length = N ∧ (∀ a : ℝ, (wGaussian N a).length = N) ∧
    (wBohman (R := ℝ) N).length = N ∧ (wRiesz (R := ℝ) N).length = N ∧ (wRiemann (R := ℝ) N).length = N ∧
    (∀ a : ℝ, (wPoisson N a).length = N) ∧ (∀ a : ℝ, (wPoissonHanning N a).length = N) ∧
    (∀ a : ℝ, (wCauchy N a).length = N) ∧ (wParzen (R := ℝ) N).length = N ∧
    (∀ (r : ℝ) (z o : Bool), (wTukey N r z o).length = N) ∧ (∀ b : ℝ, (wKaiser N b).length = N) ∧
    (∀ (nbar : ℕ) (sll : ℝ), (wTaylor N nbar sll).length = N) := by
  refine ⟨?_, ?_, ?_, ?_, ?_, ?_, ?_, ?_, ?_, ?_, ?_, ?_, ?_, ?_, ?_, ?_, ?_, ?_, ?_, ?_, ?_, ?_, ?_⟩
  · simp [wRectangle]
  · exact length_guard _ _
  · exact length_guard _ _
  · exact length_guard _ _
  · intro a; exact length_guard _ _
  · exact length_guard _ _
  · exact length_guard _ _
  · exact length_guard _ _
  · exact length_flattop N
  · exact length_guard _ _
  · exact length_guard _ _
  · exact length_guard _ _
  · intro a; simp [wGaussian]
  · simp [wBohman]
  · simp [wRiesz]
  · simp [wRiemann]
  · intro a; simp [wPoisson]
  · intro a; simp [wPoissonHanning]
  · intro a; simp [wCauchy]
  · simp [wParzen]
  · exact length_tukey N
  · intro b; exact length_guard _ _
  · exact length_taylor N

/-! ### ENBW corollaries -/

/-- corollary: a non-empty window whose samples are non-negative, one of them positive, has `ENBW ≥ 1` -/
theorem enbw_ge_one_of_nonneg (w : List ℝ) (h0 : ∀ i, i < w.length → 0 ≤ nth w i)
    (j : ℕ) (hj : j < w.length) (hpos : 0 < nth w j) : 1 ≤ enbw w := by
  apply enbw_ge_one
  apply ne_of_gt
  exact Finset.sum_pos' (fun i hi => h0 i (Finset.mem_range.mp hi)) ⟨j, Finset.mem_range.mpr hj, hpos⟩

/-- Hamming, every `N ≥ 1`: all samples are `≥ 0.08 > 0`, hence `ENBW ≥ 1` -/
theorem enbw_ge_one_hamming (N : ℕ) (h1 : 1 ≤ N) : 1 ≤ enbw (wHamming (R := ℝ) N) := by
  have hlen : (wHamming (R := ℝ) N).length = N := (length_eq N).2.1
  have hp : ∀ i, i < N → 0 < nth (wHamming (R := ℝ) N) i := by
    intro i hi
    unfold wHamming
    rw [nth_guard N _ i hi]
    split_ifs
    · norm_num
    · have := Real.cos_le_one (theta N i)
      rw [cos_real, dec_real, dec_real]
      norm_num
      linarith
  exact enbw_ge_one_of_nonneg _ (fun i hi => (hp i (hlen ▸ hi)).le) 0 (by omega) (hp 0 (by omega))
/-! ### closed forms of the classical windows (`N ≥ 2`, `n < N`) -/

theorem hamming_closed_form (N n : ℕ) (h2 : 2 ≤ N) (hn : n < N) :
    nth (wHamming (R := ℝ) N) n = 0.54 - 0.46 * Real.cos (2 * Real.pi * n / ((N : ℝ) - 1)) := by
  unfold wHamming
  rw [nth_guard N _ n hn, if_neg (by omega), theta_real, cos_real, dec_real, dec_real,
    Nat.cast_sub (by omega)]
  norm_num

theorem hann_closed_form (N n : ℕ) (h2 : 2 ≤ N) (hn : n < N) :
    nth (wHann (R := ℝ) N) n = 0.5 - 0.5 * Real.cos (2 * Real.pi * n / ((N : ℝ) - 1)) := by
  unfold wHann
  rw [nth_guard N _ n hn, if_neg (by omega), theta_real, cos_real, dec_real,
    Nat.cast_sub (by omega)]
  norm_num

theorem blackman_closed_form (N : ℕ) (alpha : ℝ) (n : ℕ) (h2 : 2 ≤ N) (hn : n < N) :
    nth (wBlackman N alpha) n
      = (1 - alpha) / 2 - 0.5 * Real.cos (2 * Real.pi * n / ((N : ℝ) - 1))
        + alpha / 2 * Real.cos (4 * Real.pi * n / ((N : ℝ) - 1)) := by
  unfold wBlackman
  rw [nth_guard N _ n hn, if_neg (by omega), theta_real, cos_real, cos_real, dec_real, two_real,
    Nat.cast_sub (by omega)]
  have : 2 * (2 * Real.pi * (n : ℝ) / ((N : ℝ) - ((1 : ℕ) : ℝ))) = 4 * Real.pi * n / ((N : ℝ) - 1) := by
    rw [Nat.cast_one]; ring
  rw [this]
  norm_num

theorem bartlett_closed_form (N n : ℕ) (h2 : 2 ≤ N) (hn : n < N) :
    nth (wBartlett (R := ℝ) N) n = 1 - |2 * (n : ℝ) / ((N : ℝ) - 1) - 1| := by
  unfold wBartlett
  rw [nth_guard N _ n hn, if_neg (by omega), abs_real, two_real, Nat.cast_sub (by omega), Nat.cast_one]

theorem cosine_closed_form (N n : ℕ) (h2 : 2 ≤ N) (hn : n < N) :
    nth (wCosine (R := ℝ) N) n = Real.sin (Real.pi * n / ((N : ℝ) - 1)) := by
  unfold wCosine
  rw [nth_guard N _ n hn, if_neg (by omega), sin_real, pi_real, Nat.cast_sub (by omega), Nat.cast_one]

/-! ### symmetry `w[n] = w[N-1-n]` -/

theorem symm_rectangle (N n : ℕ) (hn : n < N) :
    nth (wRectangle (R := ℝ) N) n = nth (wRectangle (R := ℝ) N) (N - 1 - n) := by
  unfold wRectangle
  exact symm_vec N _ (fun _ _ _ => rfl) n hn

theorem symm_hamming (N n : ℕ) (hn : n < N) :
    nth (wHamming (R := ℝ) N) n = nth (wHamming (R := ℝ) N) (N - 1 - n) := by
  unfold wHamming
  refine symm_guard N _ (fun h n hn => ?_) n hn
  simp only [theta_mirror N n h hn, cos_real, Real.cos_two_pi_sub]

theorem symm_hann (N n : ℕ) (hn : n < N) :
    nth (wHann (R := ℝ) N) n = nth (wHann (R := ℝ) N) (N - 1 - n) := by
  unfold wHann
  refine symm_guard N _ (fun h n hn => ?_) n hn
  simp only [theta_mirror N n h hn, cos_real, Real.cos_two_pi_sub]

theorem symm_blackman (N : ℕ) (alpha : ℝ) (n : ℕ) (hn : n < N) :
    nth (wBlackman N alpha) n = nth (wBlackman N alpha) (N - 1 - n) := by
  unfold wBlackman
  refine symm_guard N _ (fun h n hn => ?_) n hn
  have h2 := cos_mul_mirror 2 (theta N n)
  norm_num at h2
  simp only [theta_mirror N n h hn, cos_real, Real.cos_two_pi_sub, two_real, h2]

theorem symm_nuttall (N n : ℕ) (hn : n < N) :
    nth (wNuttall (R := ℝ) N) n = nth (wNuttall (R := ℝ) N) (N - 1 - n) :=
  symm_coeff4 N _ _ _ _ n hn

theorem symm_blackman_nuttall (N n : ℕ) (hn : n < N) :
    nth (wBlackmanNuttall (R := ℝ) N) n = nth (wBlackmanNuttall (R := ℝ) N) (N - 1 - n) :=
  symm_coeff4 N _ _ _ _ n hn

theorem symm_blackman_harris (N n : ℕ) (hn : n < N) :
    nth (wBlackmanHarris (R := ℝ) N) n = nth (wBlackmanHarris (R := ℝ) N) (N - 1 - n) :=
  symm_coeff4 N _ _ _ _ n hn

theorem symm_flattop (N n : ℕ) (hn : n < N) :
    nth (wFlattop (R := ℝ) N false) n = nth (wFlattop (R := ℝ) N false) (N - 1 - n) := by
  rw [flattop_sym_eq]
  refine symm_guard N _ (fun h n hn => ?_) n hn
  rw [theta_mirror N n h hn, cosSum_mirror]

/-- periodic (DFT-even) flat-top: `w[n] = w[N-n]` for `1 ≤ n < N` -/
theorem symm_flattop_periodic (N n : ℕ) (h1 : 1 ≤ n) (hn : n < N) :
    nth (wFlattop (R := ℝ) N true) n = nth (wFlattop (R := ℝ) N true) (N - n) := by
  rw [flattop_per_eq]
  have hn' : N - n < N := by omega
  simp only [nth_vec, hn, hn', if_true]
  have hN : (N : ℝ) ≠ 0 := by
    have : N ≠ 0 := by omega
    exact_mod_cast this
  have : 2 * Real.pi * ((N - n : ℕ) : ℝ) / (N : ℝ) = 2 * Real.pi - 2 * Real.pi * (n : ℝ) / (N : ℝ) := by
    rw [Nat.cast_sub (by omega)]
    field_simp
  rw [this, cosSum_mirror]

theorem symm_bartlett_hann (N n : ℕ) (hn : n < N) :
    nth (wBartlettHann (R := ℝ) N) n = nth (wBartlettHann (R := ℝ) N) (N - 1 - n) := by
  unfold wBartlettHann
  refine symm_guard N _ (fun h n hn => ?_) n hn
  have hd : (dec 5 1 : ℝ) = 1 / 2 := by rw [dec_real]; norm_num
  simp only [theta_mirror N n h hn, cos_real, Real.cos_two_pi_sub, abs_real, hd,
    abs_sub_half_mirror N n h hn]

theorem symm_bartlett (N n : ℕ) (hn : n < N) :
    nth (wBartlett (R := ℝ) N) n = nth (wBartlett (R := ℝ) N) (N - 1 - n) := by
  unfold wBartlett
  refine symm_guard N _ (fun h n hn => ?_) n hn
  simp only [abs_real, two_real, cast_mirror N n hn]
  rw [← abs_neg]
  congr 2
  have := cast_pred_ne N h
  field_simp
  ring

theorem symm_cosine (N n : ℕ) (hn : n < N) :
    nth (wCosine (R := ℝ) N) n = nth (wCosine (R := ℝ) N) (N - 1 - n) := by
  unfold wCosine
  refine symm_guard N _ (fun h n hn => ?_) n hn
  simp only [sin_real, pi_real, cast_mirror N n hn]
  rw [← Real.sin_pi_sub]
  congr 1
  have := cast_pred_ne N h
  field_simp

theorem symm_lanczos (N n : ℕ) (hn : n < N) :
    nth (wLanczos (R := ℝ) N) n = nth (wLanczos (R := ℝ) N) (N - 1 - n) := by
  unfold wLanczos
  refine symm_guard N _ (fun h n hn => ?_) n hn
  rw [tHalf_mirror N n h hn, mul_neg, neg_div, sinc_neg]

theorem symm_riesz (N n : ℕ) (hn : n < N) :
    nth (wRiesz (R := ℝ) N) n = nth (wRiesz (R := ℝ) N) (N - 1 - n) := by
  unfold wRiesz
  refine symm_vec N _ (fun h n hn => ?_) n hn
  simp only [tHalf_mirror N n h hn, abs_real, neg_div, abs_neg]

theorem symm_riemann (N n : ℕ) (hn : n < N) :
    nth (wRiemann (R := ℝ) N) n = nth (wRiemann (R := ℝ) N) (N - 1 - n) := by
  unfold wRiemann
  refine symm_vec N _ (fun h n hn => ?_) n hn
  rw [tHalf_mirror N n h hn, neg_div, neg_mul, sinc_neg]

theorem symm_poisson (N : ℕ) (alpha : ℝ) (n : ℕ) (hn : n < N) :
    nth (wPoisson N alpha) n = nth (wPoisson N alpha) (N - 1 - n) := by
  unfold wPoisson
  refine symm_vec N _ (fun h n hn => ?_) n hn
  simp only [tHalf_mirror N n h hn, abs_real, abs_neg]

theorem symm_cauchy (N : ℕ) (alpha : ℝ) (n : ℕ) (hn : n < N) :
    nth (wCauchy N alpha) n = nth (wCauchy N alpha) (N - 1 - n) := by
  unfold wCauchy
  refine symm_vec N _ (fun h n hn => ?_) n hn
  have : alpha * -(tHalf N n : ℝ) / ((N : ℝ) / two) = -(alpha * tHalf N n / ((N : ℝ) / two)) := by ring
  simp only [tHalf_mirror N n h hn, this, neg_mul_neg]

theorem symm_gaussian (N : ℕ) (alpha : ℝ) (n : ℕ) (hn : n < N) :
    nth (wGaussian N alpha) n = nth (wGaussian N alpha) (N - 1 - n) := by
  unfold wGaussian
  refine symm_vec N _ (fun h n hn => ?_) n hn
  have : ∀ t : ℝ, alpha * -t / ((N : ℝ) / two) = -(alpha * t / ((N : ℝ) / two)) := fun t => by ring
  simp only [linspace_mirror _ N n h hn, this, neg_mul_neg]

theorem symm_bohman (N n : ℕ) (hn : n < N) :
    nth (wBohman (R := ℝ) N) n = nth (wBohman (R := ℝ) N) (N - 1 - n) := by
  unfold wBohman
  refine symm_vec N _ (fun h n hn => ?_) n hn
  simp only [linspace_mirror _ N n h hn, abs_real, abs_neg]

theorem symm_parzen (N n : ℕ) (hn : n < N) :
    nth (wParzen (R := ℝ) N) n = nth (wParzen (R := ℝ) N) (N - 1 - n) := by
  unfold wParzen
  refine symm_vec N _ (fun h n hn => ?_) n hn
  simp only [linspace_mirror _ N n h hn, abs_real, abs_neg]

theorem symm_poisson_hanning (N : ℕ) (alpha : ℝ) (n : ℕ) (hn : n < N) :
    nth (wPoissonHanning N alpha) n = nth (wPoissonHanning N alpha) (N - 1 - n) := by
  unfold wPoissonHanning
  have hn' : N - 1 - n < N := by omega
  simp only [nth_vec, hn, hn', if_true]
  have h1 := symm_hann N n hn
  have h2 := symm_poisson N alpha n hn
  unfold nth at h1 h2
  rw [h1, h2]

theorem symm_kaiser (N : ℕ) (beta : ℝ) (n : ℕ) (hn : n < N) :
    nth (wKaiser N beta) n = nth (wKaiser N beta) (N - 1 - n) := by
  unfold wKaiser
  refine symm_guard N _ (fun h n hn => ?_) n hn
  have : two * (((N - 1 - n : ℕ) : ℝ)) / ((N - 1 : ℕ) : ℝ) - 1 = -(two * (n : ℝ) / ((N - 1 : ℕ) : ℝ) - 1) := by
    rw [two_real, cast_mirror N n hn]
    have := cast_pred_ne N h
    field_simp
    ring
  simp only [this, neg_mul_neg]

/-- Tukey with `r ≤ 1` (the code asserts `0 ≤ r ≤ 1`; `r = 0`/`r = 1` are the flagged special cases) -/
theorem symm_tukey (N : ℕ) (r : ℝ) (hr : r ≤ 1) (z o : Bool) (n : ℕ) (hn : n < N) :
    nth (wTukey N r z o) n = nth (wTukey N r z o) (N - 1 - n) := by
  by_cases h1 : N = 1
  · subst h1
    have : n = 0 := by omega
    subst this
    rfl
  cases z with
  | true =>
    have : wTukey N r true o = vec N (fun _ => 1) := by simp [wTukey, h1]
    rw [this]
    exact symm_vec N _ (fun _ _ _ => rfl) n hn
  | false =>
    cases o with
    | true =>
      have : wTukey N r false true = wHann N := by simp [wTukey, h1]
      rw [this]
      exact symm_hann N n hn
    | false =>
      rw [tukey_else_eq N r h1]
      refine symm_vec N _ (fun h2 n hn => ?_) n hn
      exact tukey_shape_symm N _
        (fun k => dec 5 1 * (1 + RealFn.cos (two * RealFn.pi / r * (linspace (0 : ℝ) 1 N k - r / two))))
        (tukey_L_le N r hr h2) n hn

theorem symm_taylor (N nbar : ℕ) (sll : ℝ) (n : ℕ) (hn : n < N) :
    nth (wTaylor N nbar sll) n = nth (wTaylor N nbar sll) (N - 1 - n) := by
  unfold wTaylor
  refine symm_vec N _ (fun _ n hn => ?_) n hn
  simp only [taylor_cos_mirror N n hn]
/-! ### maximum `≤ 1` and centre sample `= 1` for odd `N ≥ 3` -/

theorem max_le_one_rectangle (N n : ℕ) (hn : n < N) : nth (wRectangle (R := ℝ) N) n ≤ 1 := by
  unfold wRectangle
  exact max_vec N _ (fun _ _ => le_rfl) n hn

theorem centre_eq_one_rectangle (N : ℕ) (h3 : 3 ≤ N) :
    nth (wRectangle (R := ℝ) N) ((N - 1) / 2) = 1 := by
  unfold wRectangle
  rw [centre_vec N (by omega)]

theorem max_le_one_hamming (N n : ℕ) (hn : n < N) : nth (wHamming (R := ℝ) N) n ≤ 1 := by
  unfold wHamming
  refine max_guard N _ (fun _ n _ => ?_) n hn
  have := Real.neg_one_le_cos (theta N n)
  rw [cos_real, dec_real, dec_real]
  norm_num
  linarith

theorem centre_eq_one_hamming (N : ℕ) (h3 : 3 ≤ N) (hodd : N % 2 = 1) :
    nth (wHamming (R := ℝ) N) ((N - 1) / 2) = 1 := by
  unfold wHamming
  rw [centre_guard N h3, theta_centre N h3 hodd, cos_real, Real.cos_pi, dec_real, dec_real]
  norm_num

theorem max_le_one_hann (N n : ℕ) (hn : n < N) : nth (wHann (R := ℝ) N) n ≤ 1 := by
  unfold wHann
  refine max_guard N _ (fun _ n _ => ?_) n hn
  have := Real.neg_one_le_cos (theta N n)
  rw [cos_real, dec_real]
  norm_num
  linarith

theorem centre_eq_one_hann (N : ℕ) (h3 : 3 ≤ N) (hodd : N % 2 = 1) :
    nth (wHann (R := ℝ) N) ((N - 1) / 2) = 1 := by
  unfold wHann
  rw [centre_guard N h3, theta_centre N h3 hodd, cos_real, Real.cos_pi, dec_real]
  norm_num

/-- Blackman with `alpha ≥ 0` (the default is `0.16`) -/
theorem max_le_one_blackman (N : ℕ) (alpha : ℝ) (ha : 0 ≤ alpha) (n : ℕ) (hn : n < N) :
    nth (wBlackman N alpha) n ≤ 1 := by
  unfold wBlackman
  refine max_guard N _ (fun _ n _ => ?_) n hn
  have e1 := Real.neg_one_le_cos (theta N n)
  have e2 := mul_le_mul_of_nonneg_left (Real.cos_le_one (2 * theta N n)) ha
  rw [cos_real, cos_real, dec_real, two_real]
  norm_num
  linarith

theorem centre_eq_one_blackman (N : ℕ) (alpha : ℝ) (h3 : 3 ≤ N) (hodd : N % 2 = 1) :
    nth (wBlackman N alpha) ((N - 1) / 2) = 1 := by
  unfold wBlackman
  rw [centre_guard N h3, theta_centre N h3 hodd, cos_real, cos_real, Real.cos_pi, two_real,
    Real.cos_two_pi, dec_real]
  norm_num
  ring

theorem max_le_one_nuttall (N n : ℕ) (hn : n < N) : nth (wNuttall (R := ℝ) N) n ≤ 1 :=
  max_coeff4 N _ _ _ _ (dec_nonneg _ _) (dec_nonneg _ _) (dec_nonneg _ _)
    (by simp only [dec_real]; norm_num) n hn

theorem centre_eq_one_nuttall (N : ℕ) (h3 : 3 ≤ N) (hodd : N % 2 = 1) :
    nth (wNuttall (R := ℝ) N) ((N - 1) / 2) = 1 :=
  centre_coeff4 N _ _ _ _ (by simp only [dec_real]; norm_num) h3 hodd

theorem max_le_one_blackman_nuttall (N n : ℕ) (hn : n < N) : nth (wBlackmanNuttall (R := ℝ) N) n ≤ 1 :=
  max_coeff4 N _ _ _ _ (dec_nonneg _ _) (dec_nonneg _ _) (dec_nonneg _ _)
    (by simp only [dec_real]; norm_num) n hn

theorem centre_eq_one_blackman_nuttall (N : ℕ) (h3 : 3 ≤ N) (hodd : N % 2 = 1) :
    nth (wBlackmanNuttall (R := ℝ) N) ((N - 1) / 2) = 1 :=
  centre_coeff4 N _ _ _ _ (by simp only [dec_real]; norm_num) h3 hodd

theorem max_le_one_blackman_harris (N n : ℕ) (hn : n < N) : nth (wBlackmanHarris (R := ℝ) N) n ≤ 1 :=
  max_coeff4 N _ _ _ _ (dec_nonneg _ _) (dec_nonneg _ _) (dec_nonneg _ _)
    (by simp only [dec_real]; norm_num) n hn

theorem centre_eq_one_blackman_harris (N : ℕ) (h3 : 3 ≤ N) (hodd : N % 2 = 1) :
    nth (wBlackmanHarris (R := ℝ) N) ((N - 1) / 2) = 1 :=
  centre_coeff4 N _ _ _ _ (by simp only [dec_real]; norm_num) h3 hodd

/-- flat-top (symmetric mode): the bound is the coefficient sum `1.000000003` (not 1) -/
theorem max_le_flattop (N n : ℕ) (hn : n < N) :
    nth (wFlattop (R := ℝ) N false) n ≤ 1000000003 / 1000000000 := by
  rw [flattop_sym_eq]
  rw [nth_guard N _ n hn]
  split_ifs
  · norm_num
  · refine (cosSum_le _ _ _ _ _ _ (dec_nonneg _ _) (dec_nonneg _ _) (dec_nonneg _ _) (dec_nonneg _ _)).trans ?_
    simp only [dec_real]; norm_num

theorem max_le_flattop_periodic (N n : ℕ) (hn : n < N) :
    nth (wFlattop (R := ℝ) N true) n ≤ 1000000003 / 1000000000 := by
  rw [flattop_per_eq]
  simp only [nth_vec, hn, if_true]
  refine (cosSum_le _ _ _ _ _ _ (dec_nonneg _ _) (dec_nonneg _ _) (dec_nonneg _ _) (dec_nonneg _ _)).trans ?_
  simp only [dec_real]; norm_num

theorem centre_flattop (N : ℕ) (h3 : 3 ≤ N) (hodd : N % 2 = 1) :
    nth (wFlattop (R := ℝ) N false) ((N - 1) / 2) = 1000000003 / 1000000000 := by
  rw [flattop_sym_eq, centre_guard N h3, theta_centre N h3 hodd, cosSum_pi]
  simp only [dec_real]; norm_num

theorem max_le_one_bartlett_hann (N n : ℕ) (hn : n < N) : nth (wBartlettHann (R := ℝ) N) n ≤ 1 := by
  unfold wBartlettHann
  refine max_guard N _ (fun _ n _ => ?_) n hn
  have e1 := Real.neg_one_le_cos (theta N n)
  have e2 := abs_nonneg ((n : ℝ) / ((N - 1 : ℕ) : ℝ) - 1 / 2)
  rw [cos_real, abs_real]
  simp only [dec_real]
  norm_num
  linarith

theorem centre_eq_one_bartlett_hann (N : ℕ) (h3 : 3 ≤ N) (hodd : N % 2 = 1) :
    nth (wBartlettHann (R := ℝ) N) ((N - 1) / 2) = 1 := by
  unfold wBartlettHann
  rw [centre_guard N h3, theta_centre N h3 hodd, cos_real, Real.cos_pi, abs_real, cast_half N hodd]
  have := cast_pred_ne N (by omega)
  have e : ((N - 1 : ℕ) : ℝ) / 2 / ((N - 1 : ℕ) : ℝ) - dec 5 1 = 0 := by
    rw [dec_real]; field_simp; norm_num
  rw [e]
  simp only [dec_real]; norm_num

theorem max_le_one_bartlett (N n : ℕ) (hn : n < N) : nth (wBartlett (R := ℝ) N) n ≤ 1 := by
  unfold wBartlett
  refine max_guard N _ (fun _ n _ => ?_) n hn
  rw [abs_real]
  linarith [abs_nonneg (two * (n : ℝ) / ((N - 1 : ℕ) : ℝ) - 1)]

theorem centre_eq_one_bartlett (N : ℕ) (h3 : 3 ≤ N) (hodd : N % 2 = 1) :
    nth (wBartlett (R := ℝ) N) ((N - 1) / 2) = 1 := by
  unfold wBartlett
  rw [centre_guard N h3, abs_real, cast_half N hodd, two_real]
  have := cast_pred_ne N (by omega)
  have e : 2 * (((N - 1 : ℕ) : ℝ) / 2) / ((N - 1 : ℕ) : ℝ) - 1 = 0 := by
    field_simp; ring
  rw [e]; simp

theorem max_le_one_cosine (N n : ℕ) (hn : n < N) : nth (wCosine (R := ℝ) N) n ≤ 1 := by
  unfold wCosine
  refine max_guard N _ (fun _ n _ => ?_) n hn
  exact Real.sin_le_one _

theorem centre_eq_one_cosine (N : ℕ) (h3 : 3 ≤ N) (hodd : N % 2 = 1) :
    nth (wCosine (R := ℝ) N) ((N - 1) / 2) = 1 := by
  unfold wCosine
  rw [centre_guard N h3, sin_real, pi_real, cast_half N hodd]
  have := cast_pred_ne N (by omega)
  have e : Real.pi * (((N - 1 : ℕ) : ℝ) / 2) / ((N - 1 : ℕ) : ℝ) = Real.pi / 2 := by
    field_simp
  rw [e, Real.sin_pi_div_two]

theorem max_le_one_lanczos (N n : ℕ) (hn : n < N) : nth (wLanczos (R := ℝ) N) n ≤ 1 := by
  unfold wLanczos
  exact max_guard N _ (fun _ n _ => sinc_le_one _) n hn

theorem centre_eq_one_lanczos (N : ℕ) (h3 : 3 ≤ N) (hodd : N % 2 = 1) :
    nth (wLanczos (R := ℝ) N) ((N - 1) / 2) = 1 := by
  unfold wLanczos
  rw [centre_guard N h3, tHalf_centre N h3 hodd, mul_zero, zero_div, sinc_zero]

theorem max_le_one_riemann (N n : ℕ) (hn : n < N) : nth (wRiemann (R := ℝ) N) n ≤ 1 := by
  unfold wRiemann
  exact max_vec N _ (fun n _ => sinc_le_one _) n hn

theorem centre_eq_one_riemann (N : ℕ) (h3 : 3 ≤ N) (hodd : N % 2 = 1) :
    nth (wRiemann (R := ℝ) N) ((N - 1) / 2) = 1 := by
  unfold wRiemann
  rw [centre_vec N (by omega), tHalf_centre N h3 hodd, zero_div, zero_mul, sinc_zero]

theorem max_le_one_riesz (N n : ℕ) (hn : n < N) : nth (wRiesz (R := ℝ) N) n ≤ 1 := by
  unfold wRiesz
  refine max_vec N _ (fun n _ => ?_) n hn
  simp only [sub_le_self_iff]
  exact mul_self_nonneg _

theorem centre_eq_one_riesz (N : ℕ) (h3 : 3 ≤ N) (hodd : N % 2 = 1) :
    nth (wRiesz (R := ℝ) N) ((N - 1) / 2) = 1 := by
  unfold wRiesz
  rw [centre_vec N (by omega)]
  simp only [tHalf_centre N h3 hodd, zero_div, abs_real, abs_zero, mul_zero, sub_zero]

theorem max_le_one_cauchy (N : ℕ) (alpha : ℝ) (n : ℕ) (hn : n < N) : nth (wCauchy N alpha) n ≤ 1 := by
  unfold wCauchy
  refine max_vec N _ (fun n _ => ?_) n hn
  simp only
  have := mul_self_nonneg (alpha * tHalf N n / ((N : ℝ) / two))
  rw [div_le_one (by linarith)]
  linarith

theorem centre_eq_one_cauchy (N : ℕ) (alpha : ℝ) (h3 : 3 ≤ N) (hodd : N % 2 = 1) :
    nth (wCauchy N alpha) ((N - 1) / 2) = 1 := by
  unfold wCauchy
  rw [centre_vec N (by omega)]
  simp only [tHalf_centre N h3 hodd, mul_zero, zero_div, add_zero, div_one]

/-- Poisson with `alpha ≥ 0` (the default is `2`) -/
theorem max_le_one_poisson (N : ℕ) (alpha : ℝ) (ha : 0 ≤ alpha) (n : ℕ) (hn : n < N) :
    nth (wPoisson N alpha) n ≤ 1 := by
  unfold wPoisson
  refine max_vec N _ (fun n _ => ?_) n hn
  rw [exp_real, Real.exp_le_one_iff, abs_real, two_real, neg_mul, neg_div, neg_nonpos]
  positivity

theorem centre_eq_one_poisson (N : ℕ) (alpha : ℝ) (h3 : 3 ≤ N) (hodd : N % 2 = 1) :
    nth (wPoisson N alpha) ((N - 1) / 2) = 1 := by
  unfold wPoisson
  rw [centre_vec N (by omega)]
  simp only [tHalf_centre N h3 hodd, abs_real, abs_zero, mul_zero, zero_div, exp_real, Real.exp_zero]

theorem max_le_one_gaussian (N : ℕ) (alpha : ℝ) (n : ℕ) (hn : n < N) : nth (wGaussian N alpha) n ≤ 1 := by
  unfold wGaussian
  refine max_vec N _ (fun n _ => ?_) n hn
  simp only
  rw [exp_real, Real.exp_le_one_iff, neg_mul, neg_nonpos]
  exact mul_nonneg (dec_nonneg _ _) (mul_self_nonneg _)

theorem centre_eq_one_gaussian (N : ℕ) (alpha : ℝ) (h3 : 3 ≤ N) (hodd : N % 2 = 1) :
    nth (wGaussian N alpha) ((N - 1) / 2) = 1 := by
  unfold wGaussian
  rw [centre_vec N (by omega)]
  simp only [linspace_centre _ N h3 hodd, mul_zero, zero_div, exp_real, Real.exp_zero]

theorem max_le_one_bohman (N n : ℕ) (hn : n < N) : nth (wBohman (R := ℝ) N) n ≤ 1 := by
  unfold wBohman
  refine max_vec N _ (fun n hn => ?_) n hn
  simp only [abs_real, cos_real, sin_real, pi_real]
  exact bohman_le_one _ (abs_nonneg _) (linspace_abs_le N n hn)

theorem centre_eq_one_bohman (N : ℕ) (h3 : 3 ≤ N) (hodd : N % 2 = 1) :
    nth (wBohman (R := ℝ) N) ((N - 1) / 2) = 1 := by
  unfold wBohman
  rw [centre_vec N (by omega)]
  simp only [linspace_centre _ N h3 hodd, abs_real, abs_zero, mul_zero, cos_real, sin_real,
    Real.cos_zero, Real.sin_zero, sub_zero, mul_one, add_zero]

/-- Poisson–Hanning with `alpha ≥ 0` -/
theorem max_le_one_poisson_hanning (N : ℕ) (alpha : ℝ) (ha : 0 ≤ alpha) (n : ℕ) (hn : n < N) :
    nth (wPoissonHanning N alpha) n ≤ 1 := by
  unfold wPoissonHanning
  refine max_vec N _ (fun n hn => ?_) n hn
  exact mul_le_one₀ (max_le_one_hann N n hn) (nth_poisson_nonneg N alpha n)
    (max_le_one_poisson N alpha ha n hn)

theorem centre_eq_one_poisson_hanning (N : ℕ) (alpha : ℝ) (h3 : 3 ≤ N) (hodd : N % 2 = 1) :
    nth (wPoissonHanning N alpha) ((N - 1) / 2) = 1 := by
  unfold wPoissonHanning
  rw [centre_vec N (by omega)]
  have h1 := centre_eq_one_hann N h3 hodd
  have h2 := centre_eq_one_poisson N alpha h3 hodd
  unfold nth at h1 h2
  rw [h1, h2, mul_one]

theorem max_le_one_parzen (N n : ℕ) (hn : n < N) : nth (wParzen (R := ℝ) N) n ≤ 1 := by
  unfold wParzen
  refine max_vec N _ (fun n hn => ?_) n hn
  simp only [abs_real, lt_real, decide_eq_true_eq, two_real]
  have hN : (0 : ℝ) < (N : ℝ) := by exact_mod_cast (by omega : 0 < N)
  have hA : (0 : ℝ) ≤ ((N - 1 : ℕ) : ℝ) / 2 := by positivity
  have ht := linspace_abs_le_gen _ hA N n hn
  have hc : ((N - 1 : ℕ) : ℝ) = (N : ℝ) - 1 := by
    rw [Nat.cast_sub (by omega)]; simp
  set t := |linspace (-(((N - 1 : ℕ) : ℝ) / 2)) (((N - 1 : ℕ) : ℝ) / 2) N n| with htdef
  have ht0 : 0 ≤ t := abs_nonneg _
  have hu1 : t / ((N : ℝ) / 2) ≤ 1 := by
    rw [div_le_one (by positivity)]
    rw [hc] at ht
    linarith
  split_ifs with hlt
  · refine parzen_outer_le _ ?_ hu1
    rw [le_div_iff₀ (by positivity)]
    have h2 : 2 ≤ N := by
      by_contra hcon
      have : N = 1 := by omega
      subst this
      simp at hlt ht
      linarith
    have h2' : (2 : ℝ) ≤ (N : ℝ) := by exact_mod_cast h2
    have e4 : (((4 : ℕ) : ℝ)) = 4 := by norm_num
    rw [hc, e4] at hlt
    linarith
  · have e6 : (((6 : ℕ) : ℝ)) = 6 := by norm_num
    rw [e6]
    exact parzen_inner_le _ hu1

theorem centre_eq_one_parzen (N : ℕ) (h3 : 3 ≤ N) (hodd : N % 2 = 1) :
    nth (wParzen (R := ℝ) N) ((N - 1) / 2) = 1 := by
  unfold wParzen
  rw [centre_vec N (by omega)]
  have hneg : ¬ (((N - 1 : ℕ) : ℝ) / ((4 : ℕ) : ℝ) < 0) := by
    rw [not_lt]; positivity
  have hd : decide (((N - 1 : ℕ) : ℝ) / ((4 : ℕ) : ℝ) < 0) = false := decide_eq_false hneg
  simp only [linspace_centre _ N h3 hodd, abs_real, abs_zero, lt_real, hd, Bool.false_eq_true, if_false,
    zero_div, mul_zero, sub_zero, add_zero]

/-- Tukey (any `r`, any flag combination): every sample is `≤ 1` -/
theorem max_le_one_tukey (N : ℕ) (r : ℝ) (z o : Bool) (n : ℕ) (hn : n < N) :
    nth (wTukey N r z o) n ≤ 1 := by
  by_cases h1 : N = 1
  · subst h1
    have : n = 0 := by omega
    subst this
    simp [wTukey, nth]
  cases z with
  | true =>
    have : wTukey N r true o = vec N (fun _ => 1) := by simp [wTukey, h1]
    rw [this]
    exact max_vec N _ (fun _ _ => le_rfl) n hn
  | false =>
    cases o with
    | true =>
      have : wTukey N r false true = wHann N := by simp [wTukey, h1]
      rw [this]
      exact max_le_one_hann N n hn
    | false =>
      rw [tukey_else_eq N r h1]
      refine max_vec N _ (fun n _ => ?_) n hn
      split_ifs
      · exact lobe_le_one _
      · exact lobe_le_one _
      · exact le_rfl

/-- Tukey with `r ≤ 1`: the centre sample lies in the flat part -/
theorem centre_eq_one_tukey (N : ℕ) (r : ℝ) (hr : r ≤ 1) (z o : Bool) (h3 : 3 ≤ N) (hodd : N % 2 = 1) :
    nth (wTukey N r z o) ((N - 1) / 2) = 1 := by
  have h1 : N ≠ 1 := by omega
  cases z with
  | true =>
    have : wTukey N r true o = vec N (fun _ => 1) := by simp [wTukey, h1]
    rw [this, centre_vec N (by omega)]
  | false =>
    cases o with
    | true =>
      have : wTukey N r false true = wHann N := by simp [wTukey, h1]
      rw [this]
      exact centre_eq_one_hann N h3 hodd
    | false =>
      rw [tukey_else_eq N r h1, centre_vec N (by omega)]
      have hL := tukey_L_le N r hr (by omega)
      rw [if_neg (by omega), if_neg (by omega)]

example : (3 : ℕ) ≤ 5 ∧ 5 % 2 = 1 ∧ (5 - 1) / 2 < 5 := by decide

/-! ### Kaiser (every real `beta`) and Taylor -/

/-- Kaiser, every `N`, every real `beta`: all samples are `≤ 1` -/
theorem max_le_one_kaiser (N : ℕ) (beta : ℝ) (n : ℕ) (hn : n < N) : nth (wKaiser N beta) n ≤ 1 := by
  unfold wKaiser
  exact max_guard N _ (fun h n hn => kaiser_sample_le_one N beta n h hn) n hn

/-- Kaiser: all samples are strictly positive (indeed `≥ 1/I₀(β)`) -/
theorem pos_kaiser (N : ℕ) (beta : ℝ) (n : ℕ) (hn : n < N) : 0 < nth (wKaiser N beta) n := by
  unfold wKaiser
  rw [nth_guard N _ n hn]
  split_ifs
  · exact one_pos
  · exact kaiser_sample_pos _ _

/-- Kaiser, odd `N ≥ 3`: the centre sample is exactly `1` (there `u = 0`, `sqrt 1 = 1`, `I₀(β)/I₀(β) = 1`) -/
theorem centre_eq_one_kaiser (N : ℕ) (beta : ℝ) (h3 : 3 ≤ N) (hodd : N % 2 = 1) :
    nth (wKaiser N beta) ((N - 1) / 2) = 1 := by
  unfold wKaiser
  rw [centre_guard N h3]
  simp only [kaiser_u_centre N h3 hodd, mul_zero, sub_zero, sqrt_real, Real.sqrt_one, mul_one]
  exact div_self (besselI0_ne_zero beta)

example : nth (wKaiser 5 (14 : ℝ)) 2 = 1 := centre_eq_one_kaiser 5 14 (by norm_num) (by norm_num)
example : nth (wKaiser 1 (-3 : ℝ)) 0 ≤ 1 ∧ 0 < nth (wKaiser 1 (-3 : ℝ)) 0 :=
  ⟨max_le_one_kaiser 1 _ 0 (by norm_num), pos_kaiser 1 _ 0 (by norm_num)⟩

/-- Kaiser, `N ≥ 2`: the end samples are `1/I₀(β)` (there `u = ∓1`, the radicand is `0`) -/
theorem first_kaiser (N : ℕ) (beta : ℝ) (h2 : 2 ≤ N) :
    nth (wKaiser N beta) 0 = 1 / besselI0 beta := by
  unfold wKaiser
  rw [nth_guard N _ 0 (by omega), if_neg (by omega)]
  simp only [kaiser_u_first N]
  rw [sqrt_real]
  norm_num [besselI0_zero]

/-- Kaiser closed form (`N ≥ 2`, `n < N`): with `P(q) = Σ_{k ≤ 60} q^k/(k!)²` (`i0poly`, the partial sum the model's
fold computes) the sample is `P(β²(1-u²)/4) / P(β²/4)`, `u = 2n/(N-1) − 1` -/
theorem kaiser_closed_form (N : ℕ) (beta : ℝ) (n : ℕ) (h2 : 2 ≤ N) (hn : n < N) :
    nth (wKaiser N beta) n
      = i0poly (beta ^ 2 * (1 - (2 * (n : ℝ) / ((N : ℝ) - 1) - 1) ^ 2) / 4) / i0poly (beta ^ 2 / 4) := by
  unfold wKaiser
  rw [nth_guard N _ n hn, if_neg (by omega)]
  simp only [besselI0_eq, sqrt_real]
  have hr := (kaiser_radicand_range N n h2 hn).1
  have e : ∀ r : ℝ, 0 ≤ r → beta * Real.sqrt r * (beta * Real.sqrt r) = beta ^ 2 * r := by
    intro r h0
    have := Real.mul_self_sqrt h0
    calc beta * Real.sqrt r * (beta * Real.sqrt r) = beta ^ 2 * (Real.sqrt r * Real.sqrt r) := by ring
      _ = beta ^ 2 * r := by rw [this]
  rw [e _ hr, two_real, Nat.cast_sub (by omega), Nat.cast_one]
  ring_nf

/-- hence `ENBW ≥ 1` for the Kaiser window of every length `N ≥ 1` and every `beta` -/
theorem enbw_ge_one_kaiser (N : ℕ) (beta : ℝ) (h1 : 1 ≤ N) : 1 ≤ enbw (wKaiser N beta) := by
  have hlen : (wKaiser N beta).length = N := length_guard _ _
  exact enbw_ge_one_of_nonneg _ (fun i hi => (pos_kaiser N beta i (hlen ▸ hi)).le) 0 (by omega)
    (pos_kaiser N beta 0 (by omega))

/-- Taylor, odd `N`: the centre sample is `W((N-1)/2)/scale = 1`, provided the model's normalising constant
`scale = W((N-1)/2)` (`taylorScale`, the verbatim expression of the model) is not zero -/
theorem centre_eq_one_taylor (N nbar : ℕ) (sll : ℝ) (hodd : N % 2 = 1)
    (hs : taylorScale N nbar sll ≠ 0) :
    nth (wTaylor N nbar sll) ((N - 1) / 2) = 1 := by
  rw [wTaylor_eq, centre_vec N (by omega)]
  have : taylorW N nbar sll ((((N - 1) / 2 : ℕ)) : ℝ) = taylorScale N nbar sll := by
    unfold taylorScale
    rw [cast_half N hodd, two_real]
  rw [this]
  exact div_self hs

/-- the hypothesis of `centre_eq_one_taylor` is satisfiable (`nbar = 1`: no cosine terms, `scale = 1`) -/
example : taylorScale 5 1 (30 : ℝ) ≠ 0 := by
  rw [taylorScale_nbar_one]; exact one_ne_zero

/-! ### the factory tables (finite: `decide`) -/

/-- the factory accepts exactly 29 names -/
theorem registry_count : Registry.windowNames.length = 29 := by decide

/-- aliases are routed to the same generator function -/
theorem alias_same :
    Registry.windowNames.lookup "hann" = Registry.windowNames.lookup "hanning" ∧
    Registry.windowNames.lookup "rectangle" = Registry.windowNames.lookup "rectangular" ∧
    Registry.windowNames.lookup "bartlett" = Registry.windowNames.lookup "triangular" ∧
    Registry.windowNames.lookup "cosine" = Registry.windowNames.lookup "sine" ∧
    Registry.windowNames.lookup "lanczos" = Registry.windowNames.lookup "sinc" ∧
    Registry.windowNames.lookup "hann" = some "window_hann" ∧
    Registry.windowNames.lookup "rectangle" = some "window_rectangle" ∧
    Registry.windowNames.lookup "bartlett" = some "window_bartlett" ∧
    Registry.windowNames.lookup "cosine" = some "window_cosine" ∧
    Registry.windowNames.lookup "lanczos" = some "window_lanczos" := by decide

/-- every keyword the factory forwards for a window name is a keyword parameter of that name's generator
function, and no probe hit the marker `"!"` (accepted-but-raised-something-else) -/
theorem routing_documented :
    ∀ e ∈ Registry.factoryRouting,
      ∃ g, Registry.windowNames.lookup e.1 = some g ∧
        ∃ ps, Registry.generatorParams.lookup g = some ps ∧
          ∀ kw ∈ e.2, kw ∈ ps ∧ kw ≠ "!" := by decide

/-- the routing table and the name table list the same 29 names, in the same order -/
theorem routing_names :
    Registry.factoryRouting.map Prod.fst = Registry.windowNames.map Prod.fst ∧
    (Registry.windowNames.map Prod.fst).Nodup := by decide

/-- an unknown keyword (`foo`) is forwarded for no window -/
theorem unknown_rejected : ∀ e ∈ Registry.factoryRouting, "foo" ∉ e.2 := by decide

end SpecVerif.C20
