-- root of the `SpecVerif` library: the executable model, the generated registry, and the proofs
import SpecVerif.Model.Basic
import SpecVerif.Model.DFT
import SpecVerif.Model.Correlation
import SpecVerif.Model.Periodogram
import SpecVerif.Model.Levinson
import SpecVerif.Model.RealFn
import SpecVerif.Model.Sides
import SpecVerif.Proofs.Lemmas.Basic
import SpecVerif.Proofs.Lemmas.DFT
import SpecVerif.Proofs.C01
