-- root of the `SpecVerif` library: the executable model, the generated registry, and the proofs
import SpecVerif.Model.Basic
import SpecVerif.Model.DFT
import SpecVerif.Model.Correlation
import SpecVerif.Model.Periodogram
import SpecVerif.Model.Levinson
import SpecVerif.Model.RealFn
import SpecVerif.Model.Sides
import SpecVerif.Model.Arma
import SpecVerif.Model.Burg
import SpecVerif.Proofs.Lemmas.Basic
import SpecVerif.Proofs.Lemmas.DFT
import SpecVerif.Proofs.Lemmas.WienerKhinchin
import SpecVerif.Proofs.C01
import SpecVerif.Proofs.Lemmas.Correlation
import SpecVerif.Proofs.C09
