#!/usr/bin/env python3
"""Confirm and import sub-agent mutants:  seed_import.py C01 [C02 ...]
For each /tmp/wt/<Cxx>/_out/m*/ : in a scratch worktree of /repo HEAD (removed afterwards) check that
the patch applies, the unedited test suite passes with it, the demo fails with it and passes without it;
then copy patch.diff, demo.py, notes.md into /verif/seeded/<Cxx>-<m>/ with meta.json."""
import json, os, shutil, subprocess, sys
ROOT = os.path.dirname(os.path.dirname(os.path.abspath(__file__)))
SO = "/repo/src/spectrum/mydpss.cpython-312-x86_64-linux-gnu.so"

def sh(cmd, cwd=None, env=None, timeout=1800):
    p = subprocess.run(cmd, shell=True, cwd=cwd, env=env, capture_output=True, text=True, timeout=timeout)
    return p.returncode, (p.stdout + p.stderr)

def main(ids):
    wt = "/tmp/wt/verify"
    sh("git -C /repo worktree remove --force %s" % wt)
    rc, out = sh("git -C /repo worktree add --detach %s HEAD" % wt)
    assert rc == 0, out
    shutil.copy(SO, wt + "/src/spectrum/")
    env = dict(os.environ, PYTHONPATH=wt + "/src", MPLBACKEND="Agg")
    try:
        for wid in ids:
            pid = wid[-3:]                      # worktree R2C07 holds a second-round change for property C07
            base = "/tmp/wt/%s/_out" % wid
            if not os.path.isdir(base):
                print(pid, "no _out"); continue
            for m in sorted(os.listdir(base)):
                d = os.path.join(base, m)
                patch = os.path.join(d, "patch.diff"); demo = os.path.join(d, "demo.py")
                if not (os.path.exists(patch) and os.path.exists(demo)):
                    continue
                res = {"property": pid, "mutant": m}
                rc0, o0 = sh("/venv/bin/python -W ignore %s" % demo, cwd=wt, env=env)
                res["demo_clean_rc"] = rc0
                rc, o = sh("git apply %s" % patch, cwd=wt)
                res["applies"] = rc == 0
                if rc != 0:
                    print(pid, m, "PATCH DOES NOT APPLY", o[:200]); continue
                rc1, o1 = sh("/venv/bin/python -W ignore %s" % demo, cwd=wt, env=env)
                res["demo_mutant_rc"] = rc1
                rct, ot = sh("/venv/bin/python -W ignore -m pytest -q -p no:cacheprovider test", cwd=wt, env=env)
                res["tests_tail"] = ot.strip().splitlines()[-1] if ot.strip() else ""
                res["tests_pass"] = (rct == 0 and "165 passed" in ot)
                sh("git checkout -- . && git clean -fdq -e src/spectrum/*.so", cwd=wt)
                ok = res["applies"] and res["tests_pass"] and rc0 == 0 and rc1 != 0
                res["confirmed"] = ok
                print(pid, m, "confirmed" if ok else "REJECTED", json.dumps(res))
                if ok:
                    dst = os.path.join(ROOT, "seeded", "%s-%s" % (pid, m))
                    os.makedirs(dst, exist_ok=True)
                    shutil.copy(patch, dst); shutil.copy(demo, dst)
                    notes = os.path.join(d, "notes.md")
                    needs = ""
                    if os.path.exists(notes):
                        shutil.copy(notes, dst)
                        needs = open(notes).read()[:1500]
                    meta = {"breaks_property": pid, "mutant": m,
                            "needs_to_manifest": "see notes.md (written by the sub-agent that produced the change)",
                            "confirmed_by": {"worktree": "scratch worktree of /repo HEAD %s" % sh("git -C /repo rev-parse --short HEAD")[1].strip(),
                                             "tests_with_patch": res["tests_tail"],
                                             "demo_without_patch_rc": rc0, "demo_with_patch_rc": rc1,
                                             "commands": ["git apply patch.diff", "PYTHONPATH=<wt>/src /venv/bin/python -W ignore -m pytest -q -p no:cacheprovider test",
                                                          "PYTHONPATH=<wt>/src /venv/bin/python -W ignore demo.py (with and without the patch)"]},
                            "detected_by": None}
                    mp = os.path.join(dst, "meta.json")
                    if os.path.exists(mp):
                        old = json.load(open(mp)); meta["detected_by"] = old.get("detected_by")
                    json.dump(meta, open(mp, "w"), indent=1)
    finally:
        sh("git -C /repo worktree remove --force %s" % wt)

if __name__ == "__main__":
    main(sys.argv[1:])
