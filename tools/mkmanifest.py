#!/usr/bin/env python3
"""Regenerate MANIFEST.json: a property is claimed when harness/props/cNN.py and lean/SpecVerif/Proofs/CNN.lean exist."""
import json, os, re
ROOT = os.path.dirname(os.path.dirname(os.path.abspath(__file__)))
props = [json.loads(l) for l in open(os.path.join(ROOT, 'properties.jsonl'))]
NOTES = json.load(open(os.path.join(ROOT, 'tools', 'manifest_notes.json')))
claimed = [p['id'] for p in props
           if os.path.exists(os.path.join(ROOT, 'harness', 'props', p['id'].lower() + '.py'))
           and os.path.exists(os.path.join(ROOT, 'lean', 'SpecVerif', 'Proofs', p['id'] + '.lean'))]
man = {
 "version": 1,
 "setup_cmd": "cd lean && lake build",
 "hooks": {"guard": "SPECTRUM_VERIF",
           "enable": "no source hooks: every observable used by the checks is public API; the checks export SPECTRUM_VERIF=1 only for uniformity",
           "baseline_off_cmd": "cd /repo && /venv/bin/python -m pytest -ra -q -p no:cacheprovider --timeout=900 --continue-on-collection-errors",
           "source_commits": [], "add_only": True},
 "engines": [
  {"name": "lean-model", "path": "lean/", "serves_properties": claimed,
   "kind_free_text": "Lean 4 executable model (import-free, generic scalar type) + property theorems over fields with involution (single Mathlib modules); lean_exe driver speaking a line protocol"},
  {"name": "correspondence-harness", "path": "harness/", "serves_properties": claimed,
   "kind_free_text": "Python differential harness: real public API vs the model driver on generated inputs, plus property oracles used as failing-input search; regenerates Generated/Registry.lean from the live package"}],
 "checks": [],
 "notes": "Every check: regenerate lean/SpecVerif/Generated/Registry.lean from the imported package, lake build (no-op when unchanged), audit '#print axioms' of every theorem in lean/SpecVerif/Proofs/<id>.lean, then implementation-vs-model correspondence and property-oracle search on corpus + generated cases (VERIF_SEED). See DESIGN.md.",
 "not_applicable": []}
for p in props:
    pid = p['id']
    n = NOTES.get(pid, {})
    if pid in claimed:
        man['checks'].append({
            "property_id": pid,
            "quick_cmd": "./harness/check %s quick" % pid,
            "thorough_cmd": "./harness/check %s thorough" % pid,
            "evidence_file": "evidence/%s.json" % pid,
            "replay_cmd_template": "./harness/check %s quick --replay {path}" % pid,
            "engine": "lean-model",
            "level_claimed": {"category": "proof",
                              "text": n.get("text", "Lean 4 theorems about the executable model (all sizes), tied to the code by a correspondence run on every check; clauses not proved are listed as partial in the evidence"),
                              "design_ref": "DESIGN.md §5 " + pid},
            "level_note": n.get("note", "Lean kernel + Mathlib; axioms propext/Classical.choice/Quot.sound only; model fidelity is checked by differential testing (a bounded sample); FFT/LAPACK/float64 are parameters of the model"),
            "technique": n.get("technique", "Lean 4 proof over a hand-written model + differential correspondence check")})
    else:
        man['not_applicable'].append({"property_id": pid, "reason": n.get("na", "not yet claimed: model/proofs for this property are not committed yet (work in progress, see DESIGN.md)")})
json.dump(man, open(os.path.join(ROOT, 'MANIFEST.json'), 'w'), indent=1)
print("claimed:", claimed)
