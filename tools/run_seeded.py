#!/usr/bin/env python3
"""Run the registered quick checks against every seeded change:  run_seeded.py [ids...]
Applies seeded/<id>/patch.diff to /repo, runs ./harness/check <prop> quick (and any extra properties listed in
meta.json 'also_run'), records the outcome in meta.json 'detected_by', and ALWAYS restores /repo."""
import json, os, subprocess, sys
ROOT = os.path.dirname(os.path.dirname(os.path.abspath(__file__)))

def sh(cmd, cwd=None, timeout=3600):
    p = subprocess.run(cmd, shell=True, cwd=cwd, capture_output=True, text=True, timeout=timeout)
    return p.returncode, p.stdout + p.stderr

def main(ids):
    sd = os.path.join(ROOT, "seeded")
    ids = ids or sorted(os.listdir(sd))
    assert os.environ.get("SEEDED_WORKTREE") or sh("git -C /repo status --porcelain --untracked-files=no")[1].strip() == "", "/repo not clean"
    summary = {}
    for i in ids:
        d = os.path.join(sd, i)
        mp = os.path.join(d, "meta.json")
        if not os.path.exists(mp):
            continue
        meta = json.load(open(mp))
        props = [meta["breaks_property"]] + meta.get("also_run", [])
        wt = None
        if os.environ.get("SEEDED_WORKTREE"):
            # leave /repo alone: apply the change in a scratch worktree and let the check import the package from there
            wt = "/tmp/wt/seeded-%s-%d" % (i, os.getpid())
            sh("git -C /repo worktree remove --force %s" % wt)
            rc, o = sh("git -C /repo worktree add --detach %s HEAD" % wt)
            assert rc == 0, o
            sh("cp /repo/src/spectrum/*.so %s/src/spectrum/" % wt)
            rc, o = sh("git apply %s" % os.path.join(d, "patch.diff"), cwd=wt)
        else:
            rc, o = sh("git -C /repo apply %s" % os.path.join(d, "patch.diff"))
        if rc != 0:
            print(i, "patch does not apply:", o[:200])
            if wt:
                sh("git -C /repo worktree remove --force %s" % wt)
            continue
        det = {}
        try:
            for p in props:
                if not os.path.exists(os.path.join(ROOT, "harness", "props", p.lower() + ".py")):
                    det[p] = "no-check-yet"; continue
                pre = ("PYTHONPATH=%s/src VERIF_EVIDENCE_DIR=/tmp/wt/evidence-scratch VERIF_REPLAY_DIR=/tmp/wt/replays-scratch " % wt) if wt else ""
                rc, o = sh(pre + "./harness/check %s quick" % p, cwd=ROOT)
                v = [l for l in o.splitlines() if l.startswith("VIOLATION")]
                det[p] = {"rc": rc, "violation": v[0] if v else None,
                          "detail": next((l.strip() for l in o.splitlines() if "violation detail" in l), None)}
        finally:
            if wt:
                sh("git -C /repo worktree remove --force %s" % wt)
            else:
                sh("git -C /repo checkout -- .")
        meta["detected_by"] = det
        json.dump(meta, open(mp, "w"), indent=1)
        summary[i] = {p: (d_ if isinstance(d_, str) else ("DETECTED" if d_["rc"] == 1 else "missed(rc=%s)" % d_["rc"])) for p, d_ in det.items()}
        print(i, summary[i])
    # restore evidence written by mutated runs: re-run the checks on the clean tree
    return summary

if __name__ == "__main__":
    main(sys.argv[1:])
