"""Differential tests of the transliterated Marple recursions (Lean: SpecVerif/Model/Marple.lean,
driver commands `arcovarmr` / `modcovarmr`).

 (a) model vs Python   : arcovarmr/modcovarmr (mode Q converted to floats: rtol 1e-6; mode F: rtol 1e-9 on
                         the well conditioned cases) against spectrum.arcovar_marple / modcovar_marple
 (b) model vs specification, EXACT: in mode Q the recursion returns the same Gaussian rationals as the
                         specification-level commands arcovarm / modcovarm (least squares through the normal
                         equations, minimum per sample) -- rational equality, no tolerance.
 (c) edge families     : N-p = p, p > N/2, exactly fitted data, zero end samples, zero records, order 0,
                         order >= N: which side exits, and what Python does there.

run:  cd /tmp/lp/MAR/_py && /venv/bin/python -W ignore marple_diff.py
"""
import sys
import warnings
from collections import Counter, defaultdict
from fractions import Fraction

import numpy as np

import proto
import spectrum

warnings.simplefilter("ignore")
np.seterr(all="ignore")

RNG = np.random.default_rng(20260929)
DEN = 64

PY = {"arcovar": spectrum.arcovar_marple, "modcovar": spectrum.modcovar_marple}
REC = {"arcovar": "arcovarmr", "modcovar": "modcovarmr"}
SPEC = {"arcovar": "arcovarm", "modcovar": "modcovarm"}


# ---------------------------------------------------------------------------------------------- data
def dyadic(n, cplx, amp=128):
    re = RNG.integers(-amp, amp + 1, size=n)
    im = RNG.integers(-amp, amp + 1, size=n) if cplx else np.zeros(n, dtype=int)
    return [(Fraction(int(a), DEN), Fraction(int(b), DEN)) for a, b in zip(re, im)]


def to_np(x, cplx):
    if cplx:
        return np.array([complex(float(a), float(b)) for a, b in x], dtype=complex)
    return np.array([float(a) for a, _ in x], dtype=float)


def random_cases(n_cases):
    cases = []
    i = 0
    while len(cases) < n_cases:
        N = int(RNG.integers(6, 25))
        pmax = min(6, N // 2 - 1)
        p = int(RNG.integers(1, pmax + 1))
        cplx = bool(i % 2)
        cases.append(dict(kind="random", N=N, p=p, cplx=cplx, x=dyadic(N, cplx)))
        i += 1
    return cases


def fr(v):
    return (Fraction(v), Fraction(0))


def edge_cases():
    out = []

    def add(kind, x, p, cplx=False):
        out.append(dict(kind=kind, N=len(x), p=p, cplx=cplx, x=x))
    # N - p = p : the least-squares system is square, the fit is exact (minimum 0)
    for N in (4, 6, 8, 10, 12):
        for cplx in (False, True):
            add("square N-p=p", dyadic(N, cplx), N // 2, cplx)
    # p > N/2 : under-determined least squares (normal equations singular)
    for N, p in ((6, 4), (7, 4), (8, 5), (8, 7), (9, 6)):
        for cplx in (False, True):
            add("underdetermined p>N/2", dyadic(N, cplx), p, cplx)
    # exactly fitted data: x_n = sum of q exponentials with dyadic modes, requested order p >= q
    def expsum(N, modes, amps):
        return [fr(sum(Fraction(a) * Fraction(z) ** n for a, z in zip(amps, modes))) for n in range(N)]
    add("exact fit at order p (q=p)", expsum(8, [Fraction(1, 2), Fraction(-1, 4)], [1, 2]), 2)
    add("exact fit at order p (q=p)", expsum(10, [Fraction(1, 2), Fraction(-1, 2), Fraction(1, 4)], [1, 1, 3]), 3)
    add("exact fit at order p (q=p)", expsum(7, [Fraction(1, 2)], [3]), 1)
    add("exact fit below order p (q<p)", expsum(8, [Fraction(1, 2)], [3]), 2)
    add("exact fit below order p (q<p)", expsum(10, [Fraction(1, 2), Fraction(-1, 4)], [1, 2]), 3)
    add("exact fit below order p (q<p)", expsum(12, [Fraction(1, 2), Fraction(-1, 4)], [1, 2]), 4)
    # x[p..] obeys exactly a recursion of order p-1 but the order-p data matrix has full column rank:
    # pf = 0 on entry of the LAST order update (1/pf = inf in Python, feeds only ab/pb)
    add("order p-1 exact on x[p..], full rank", [fr(v) for v in (5, 1, 2, 4, 8, 16)], 2)
    add("order p-1 exact on x[p..], full rank", [fr(v) for v in (-1, -1, 0, 0)], 2)
    add("order p-1 exact on x[p..], full rank", [fr(v) for v in (1, 2, 3, 0, 0, 0, 0, 0)], 3)
    add("order p-1 exact on x[p..], full rank", [fr(v) for v in (2, -1, 4, 1, 1, 2, 3, 5, 8, 13)], 3)
    add("exact fit, unit-modulus modes", [fr(v) for v in (2, 0, 2, 0, 2, 0, 2, 0)], 2)   # 1 + (-1)^n
    add("exact fit, unit-modulus modes", [fr(v) for v in (1, 1, 1, 1, 1, 1, 1)], 1)      # constant
    add("exact fit, unit-modulus modes", [fr(v) for v in (1, 1, 1, 1, 1, 1, 1)], 2)
    cx = [(Fraction(1), Fraction(0)), (Fraction(0), Fraction(1)), (Fraction(-1), Fraction(0)), (Fraction(0), Fraction(-1))] * 2
    add("exact fit, unit-modulus modes", cx, 1, True)                                      # i^n
    add("exact fit, unit-modulus modes", cx, 2, True)
    # zero end samples
    for cplx in (False, True):
        x = dyadic(10, cplx); x[0] = fr(0); add("x[0] = 0", x, 3, cplx)
        x = dyadic(10, cplx); x[-1] = fr(0); add("x[N-1] = 0", x, 3, cplx)
        x = dyadic(10, cplx); x[0] = fr(0); x[-1] = fr(0); add("x[0] = x[N-1] = 0", x, 3, cplx)
        x = dyadic(10, cplx); x[0] = fr(0); x[1] = fr(0); add("x[0] = x[1] = 0", x, 3, cplx)
        x = dyadic(10, cplx); x[-1] = fr(0); x[-2] = fr(0); add("x[N-1] = x[N-2] = 0", x, 3, cplx)
    # a single non-zero sample / all-zero record
    x = [fr(0)] * 8; x[0] = fr(1); add("only x[0] non-zero", x, 2)
    x = [fr(0)] * 8; x[-1] = fr(1); add("only x[N-1] non-zero", x, 2)
    x = [fr(0)] * 8; x[3] = fr(1); add("single interior impulse", x, 2)
    add("all-zero record", [fr(0)] * 8, 2)
    add("all-zero record, order 0", [fr(0)] * 8, 0)
    # one-sample record, order 0: modcovar_marple counts X[0] = X[N-1] twice (documented quirk)
    add("N = 1, order 0", [fr(3)], 0)
    add("N = 2, order 0", [fr(3), fr(1)], 0)
    # order 0, order N-1, N, N+1
    for cplx in (False, True):
        add("order 0", dyadic(8, cplx), 0, cplx)
        add("order N-1", dyadic(6, cplx), 5, cplx)
        add("order N", dyadic(6, cplx), 6, cplx)
        add("order N+1", dyadic(6, cplx), 7, cplx)
    return out


# ---------------------------------------------------------------------------------------------- runs
def run_python(which, c):
    x = to_np(c["x"], c["cplx"])
    try:
        r = PY[which](x, c["p"])
        a = np.asarray(r[0], dtype=complex)[: c["p"]]
        e = complex(r[1])
        if not (np.all(np.isfinite(a)) and np.isfinite(e)):
            return ("nonfinite", a, e)
        return ("ok", a, e)
    except Exception as ex:  # noqa
        return ("raise " + type(ex).__name__ + ": " + str(ex)[:60], None, None)


def relerr(a, b, floor=1e-300):
    """max |a-b| / max(max |b|, floor)"""
    a = np.asarray(a, dtype=complex).ravel()
    b = np.asarray(b, dtype=complex).ravel()
    if a.shape != b.shape:
        return float("inf")
    if a.size == 0:
        return 0.0
    return float(np.max(np.abs(a - b)) / max(np.max(np.abs(b)), floor))


def cond_of(which, c):
    """2-norm condition number of the least-squares regressor matrix (floats)"""
    x = to_np(c["x"], True)
    N, p = c["N"], c["p"]
    if p == 0 or N - p <= 0:
        return 1.0
    rows = [[x[t - 1 - j] for j in range(p)] for t in range(p, N)]
    if which == "modcovar":
        rows += [[np.conj(x[s + 1 + j]) for j in range(p)] for s in range(N - p)]
    sv = np.linalg.svd(np.array(rows), compute_uv=False)
    return float(sv[0] / sv[-1]) if sv[-1] > 0 else float("inf")


def drive(cases):
    lines = []
    for c in cases:
        for which in ("arcovar", "modcovar"):
            lines.append(proto.request(REC[which], "Q", [c["p"]], [c["x"]]))
            lines.append(proto.request(SPEC[which], "Q", [c["p"]], [c["x"]]))
            xf = [complex(float(a), float(b)) for a, b in c["x"]]
            lines.append(proto.request(REC[which], "F", [c["p"]], [xf]))
    replies = proto.run_driver(lines, shards=4)
    k = 0
    for c in cases:
        for which in ("arcovar", "modcovar"):
            c[which] = dict(recQ=proto.parse_reply(replies[k], "Q"), specQ=proto.parse_reply(replies[k + 1], "Q"),
                            recF=proto.parse_reply(replies[k + 2], "F"), py=run_python(which, c))
            k += 3


def small_scope():
    import itertools
    good = True

    def run(alph, Ns, label):
        nonlocal good
        cases = []
        for N in Ns:
            for x in itertools.product(alph, repeat=N):
                for p in range(1, N // 2 + 1):
                    cases.append((x, p))
        lines = []
        for x, p in cases:
            for cmd in ("arcovarmr", "arcovarm", "modcovarmr", "modcovarm"):
                lines.append(proto.request(cmd, "Q", [p], [list(x)]))
        rep = proto.run_driver(lines, shards=8)
        for w, off in (("arcovar", 0), ("modcovar", 2)):
            cnt = Counter()
            ex = {}
            for i, (x, p) in enumerate(cases):
                a = proto.parse_reply(rep[4 * i + off], "Q")
                b = proto.parse_reply(rep[4 * i + off + 1], "Q")
                if a[0] == "ok" and b[0] == "ok":
                    k = "both succeed, " + ("EQUAL" if a[1] == b[1] else "DIFFERENT")
                    if a[1] != b[1]:
                        good = False
                elif a[0] == "ok":
                    k = "recursion succeeds, specification " + b[1]
                    good = False
                elif b[0] == "ok":
                    k = "recursion exits " + a[1] + ", specification succeeds"
                    good = False
                else:
                    k = "recursion exits " + a[1] + ", specification " + b[1]
                cnt[k] += 1
                ex.setdefault(k, (x, p))
            print("  %s, %s_marple: %d cases" % (label, w, len(cases)))
            for k in sorted(cnt):
                xs = ",".join(str(v[0]) + ("" if v[1] == 0 else "%+di" % v[1]) for v in ex[k][0])
                print("     %-52s %6d   e.g. x=[%s] p=%d" % (k, cnt[k], xs, ex[k][1]))
    run([(Fraction(v), Fraction(0)) for v in (-1, 0, 1, 2)], (4, 5, 6), "real alphabet {-1,0,1,2}, N = 4,5,6")
    run([(Fraction(a), Fraction(b)) for a, b in ((0, 0), (1, 0), (0, 1), (-1, 0), (1, 1))], (4, 5),
        "Gaussian alphabet {0,1,i,-1,1+i}, N = 4,5")
    print("  (the recursion succeeds exactly when the normal equations are non-singular, and then returns the same rationals: %s)"
          % ("YES" if good else "NO"))
    return good


def main():
    n_random = 400
    rnd = random_cases(n_random)
    edges = edge_cases()
    drive(rnd)
    drive(edges)
    ok = True

    print("=" * 100)
    print("RANDOM RECORDS: %d records (%d real, %d complex), dyadic samples k/%d, |k| <= 128; each record is run"
          % (len(rnd), sum(not c["cplx"] for c in rnd), sum(c["cplx"] for c in rnd), DEN))
    print("through both estimators -> %d (record, estimator) cases" % (2 * len(rnd)))
    byN = Counter(c["N"] for c in rnd)
    byp = Counter(c["p"] for c in rnd)
    print("  size distribution  N : " + " ".join("%d:%d" % (n, byN[n]) for n in sorted(byN)))
    print("  order distribution p : " + " ".join("%d:%d" % (n, byp[n]) for n in sorted(byp)))
    print("  N-p-p (excess rows)  : min %d max %d" % (min(c["N"] - 2 * c["p"] for c in rnd), max(c["N"] - 2 * c["p"] for c in rnd)))

    for which in ("arcovar", "modcovar"):
        print("-" * 100)
        print("%s_marple" % which)
        # (a) Q vs python, F vs python
        nQ = nF = nFwell = 0
        worstQ = worstF = worstFwell = 0.0
        badQ = []
        badF = []
        pyfail = Counter()
        recfail = Counter()
        for c in rnd:
            r = c[which]
            st, a_py, e_py = r["py"]
            if st != "ok":
                pyfail[st] += 1
            if r["recQ"][0] != "ok":
                recfail[r["recQ"][1]] += 1
            if st == "ok" and r["recQ"][0] == "ok":
                aQ = proto.q2c(r["recQ"][1][0]); eQ = proto.q2c(r["recQ"][1][1])[0]
                d = max(relerr(a_py, aQ), relerr([e_py], [eQ]))
                nQ += 1
                worstQ = max(worstQ, d)
                if not d <= 1e-6:
                    badQ.append((d, c["N"], c["p"], c["cplx"]))
            if st == "ok" and r["recF"][0] == "ok":
                aF = r["recF"][1][0]; eF = r["recF"][1][1][0]
                d = max(relerr(a_py, aF), relerr([e_py], [eF]))
                nF += 1
                worstF = max(worstF, d)
                kappa = cond_of(which, c)
                if kappa <= 1e3:
                    nFwell += 1
                    worstFwell = max(worstFwell, d)
                    if not d <= 1e-9:
                        badF.append((d, c["N"], c["p"], c["cplx"], kappa))
        print("  (a) mode Q (exact, rounded to double) vs Python: %d compared, max rel. difference %.3e, > 1e-6: %d"
              % (nQ, worstQ, len(badQ)))
        print("      mode F (doubles)                  vs Python: %d compared, max rel. difference %.3e" % (nF, worstF))
        print("      mode F, well conditioned (cond(data matrix) <= 1e3): %d compared, max %.3e, > 1e-9: %d"
              % (nFwell, worstFwell, len(badF)))
        print("      Python exits: %s ; model (recursion) exits: %s" % (dict(pyfail) or "none", dict(recfail) or "none"))
        for b in badQ[:5]:
            print("      BAD Q", b)
        for b in badF[:5]:
            print("      BAD F", b)
        if badQ or badF or nQ < 300:
            ok = False
        # (b) exact
        both = eq = 0
        neq = []
        only_rec = Counter()
        only_spec = Counter()
        neither = 0
        for c in rnd:
            r = c[which]
            a, b = r["recQ"], r["specQ"]
            if a[0] == "ok" and b[0] == "ok":
                both += 1
                if a[1] == b[1]:
                    eq += 1
                else:
                    neq.append((c["N"], c["p"], c["cplx"]))
            elif a[0] == "ok":
                only_rec[b[1]] += 1
            elif b[0] == "ok":
                only_spec[a[1]] += 1
            else:
                neither += 1
        print("  (b) EXACT, mode Q: recursion == least-squares specification (coefficients and error per sample, as "
              "Gaussian rationals)")
        print("      both succeed: %d ; exactly equal: %d ; different: %d" % (both, eq, len(neq)))
        print("      recursion exits while specification succeeds: %s" % (dict(only_spec) or 0))
        print("      specification fails while recursion succeeds: %s ; both fail: %d" % (dict(only_rec) or 0, neither))
        for b in neq[:5]:
            print("      DIFFERENT", b)
        if neq or both < 300:
            ok = False
        # size of the exact numbers
        bits = [max(max(abs(v.numerator).bit_length(), v.denominator.bit_length()) for pr in r["recQ"][1][0] + r["recQ"][1][1] for v in pr)
                for r in (c[which] for c in rnd) if r["recQ"][0] == "ok"]
        print("      size of the exact results (bits of the largest numerator/denominator): median %d, max %d"
              % (int(np.median(bits)), max(bits)))
        # distribution of the compared cases
        tab = defaultdict(int)
        for c in rnd:
            r = c[which]
            if r["recQ"][0] == "ok" and r["specQ"][0] == "ok":
                tab[(c["p"], "C" if c["cplx"] else "R")] += 1
        print("      exact comparisons by (order, real/complex): " + " ".join("%d%s:%d" % (k[0], k[1], tab[k]) for k in sorted(tab)))

    print("=" * 100)
    print("EDGE FAMILIES (%d records): exits of the recursion (model, exact), of the specification (model, exact) and of "
          "Python" % len(edges))
    print("%-32s %-3s %-2s %-2s | %-9s | %-24s %-10s %-8s | %s" % ("family", "N", "p", "", "estimator", "recursion (Q)", "spec (Q)", "rec==spec", "python"))
    mismatch_edge = 0
    for c in edges:
        for which in ("arcovar", "modcovar"):
            r = c[which]
            a, b = r["recQ"], r["specQ"]
            sa = "ok" if a[0] == "ok" else "exit " + a[1]
            sb = "ok" if b[0] == "ok" else "exit " + b[1]
            same = "-"
            if a[0] == "ok" and b[0] == "ok":
                same = "EQUAL" if a[1] == b[1] else "DIFFER"
                if same == "DIFFER" and c["kind"] == "N = 1, order 0" and which == "modcovar":
                    same = "DIFFER*"   # documented: 2|x0|^2 instead of |x0|^2, Python does the same
                elif same == "DIFFER":
                    mismatch_edge += 1
            st, a_py, e_py = r["py"]
            pys = st
            if st in ("ok", "nonfinite"):
                ref = a if a[0] == "ok" else (b if b[0] == "ok" else None)
                if st == "nonfinite":
                    pys = "returns nan/inf"
                elif ref is not None:
                    # exactly fitted data have zero coefficients / zero error: measure against max(|ref|, 1) resp.
                    # max(|ref|, mean power of the record)
                    pw = float(np.mean(np.abs(to_np(c["x"], True)) ** 2)) or 1.0
                    d = max(relerr(a_py, proto.q2c(ref[1][0]), 1.0), relerr([e_py], [proto.q2c(ref[1][1])[0]], pw))
                    pys = "ok, differs from exact by %.1e" % d
                else:
                    pys = "ok (finite values; no exact reference)"
            print("%-32s %-3d %-2d %-2s | %-9s | %-24s %-10s %-8s | %s" % (c["kind"][:32], c["N"], c["p"], "C" if c["cplx"] else "R",
                                                                     which, sa, sb, same, pys))
    print("DIFFER* = documented quirk of modcovar_marple for a one-sample record and order 0 (|X[0]|^2 and |X[N-1]|^2 are the "
          "same sample, counted twice); Python returns the same value as the transliteration")
    print("edge cases where both exact sides succeed and differ (other than DIFFER*): %d" % mismatch_edge)
    if mismatch_edge:
        ok = False
    print("=" * 100)
    print("EXHAUSTIVE SMALL SCOPE, EXACT (mode Q): every record over a small alphabet, every order 1..N/2")
    if not small_scope():
        ok = False
    print("=" * 100)
    print("RESULT: %s" % ("ALL CHECKS PASSED" if ok else "FAILURES"))
    return 0 if ok else 1


if __name__ == "__main__":
    sys.exit(main())
