#!/bin/bash
# run every check (quick|thorough) on the current tree; prints one summary line per property
tier=${1:-quick}
cd "$(dirname "$0")/.."
for i in $(seq -w 1 20); do
  p=C$i
  [ -f harness/props/c$i.py ] || continue
  out=$(./harness/check $p $tier 2>&1); rc=$?
  echo "rc=$rc $(echo "$out" | tail -1)"
  [ $rc -ne 0 ] && echo "$out" | grep -i "violation\|known" | head -5
done
