#!/bin/bash
# run every quick check with several seeds on the current tree; report anything that is not rc=0
cd "$(dirname "$0")/.."
tier=${1:-quick}; shift
seeds=${@:-1 2 3 4 5}
for s in $seeds; do
  for i in $(seq -w 1 20); do
    out=$(VERIF_SEED=$s ./harness/check C$i $tier 2>&1); rc=$?
    if [ $rc -ne 0 ]; then echo "seed=$s C$i rc=$rc"; echo "$out" | grep -i "violation\|known\|error" | head -4; fi
  done
  echo "seed $s done"
done
